//go:build verif_sim

package sio

// C17 (sio, restart): timers are created through a running crew, whose reported
// changes a consumer folds into a store; the crew crashes between creation and
// due time; after a simulated downtime a new crew is booted from the store and
// must fire what was pending - once, not early - and nothing that was cancelled.

import (
	"context"
	"encoding/json"
	"fmt"
	"sort"
	"testing"
	"time"

	"github.com/Comcast/sheens/crew"

	"verif/sim"
)

func init() { vfRegistry["C17/sio-restart"] = runC17SioRestart }

type vfRtTimer struct {
	id      string
	payload string
	d       time.Duration
	cancel  bool
	cancel2 bool // cancelled through the restarted crew (only timers due an hour later)
}

func runC17SioRestart(c *sim.Ctx, t *testing.T) {
	// (0 and -1 ms: due at once - such a timer is pending all the same until its message is sent)
	delays := []time.Duration{10 * time.Millisecond, 50 * time.Millisecond, 200 * time.Millisecond, time.Second, time.Hour, 0, -time.Millisecond}
	n := 1 + c.Intn(4, "ntimers")
	timers := make([]*vfRtTimer, n)
	for i := range timers {
		timers[i] = &vfRtTimer{id: fmt.Sprintf("t%d", i), payload: fmt.Sprintf("p%d", i), d: delays[c.Intn(len(delays), "d")], cancel: c.Chance(1, 5, "cancel")}
	}
	for _, tm := range timers {
		if tm.d == time.Hour && !tm.cancel && c.Bool("cancel2") {
			tm.cancel2 = true
		}
	}
	make2 := c.Bool("make2") // a new timer is requested from the restarted crew
	crashAfter := []time.Duration{0, 5 * time.Millisecond, 30 * time.Millisecond, 150 * time.Millisecond, 2 * time.Second}[c.Intn(5, "crashafter")]
	downtime := []time.Duration{time.Millisecond, 40 * time.Millisecond, 500 * time.Millisecond, 3 * time.Second}[c.Intn(4, "downtime")]
	stallW := c.Intn(2, "stallw")

	type fire struct {
		payload string
		at      time.Duration
		phase   int
	}
	var (
		lg      *sim.Log
		t0      time.Time
		stored  string
		bootAt  time.Duration
		crashAt time.Duration
		bootErr string
	)
	leak := sim.Bubble(c, t, func(s *sim.Sched) {
		s.Horizon = 3 * time.Hour
		s.MaxSteps = 8000
		s.Stalls = []time.Duration{time.Millisecond, 7 * time.Millisecond, 60 * time.Millisecond}
		s.StallW = stallW
		lg = sim.NewLog()
		t0 = time.Now()
		ctx1, crash := context.WithCancel(context.Background())
		ctx2, stop2 := context.WithCancel(context.Background())
		crew1, cp1, err := vfNewCrew(ctx1)
		if err != nil {
			c.Infra = "NewCrew: " + err.Error()
			crash()
			stop2()
			return
		}
		src := vfSpecSource()
		src.Inline = vfRecorderSpecV(true, 1)
		if err := crew1.SetMachine(ctx1, "h", src, nil); err != nil {
			c.Infra = "SetMachine: " + err.Error()
			crash()
			stop2()
			return
		}
		storeCh := make(chan string, 1)
		consume := func(ctx context.Context, out chan *Result, phase int, final chan string) {
			shadow := map[string]*crew.Machine{}
			for {
				sim.Yield("h#consume")
				r, ok := sim.RecvOrDone("h#consume-select", ctx.Done(), (<-chan *Result)(out))
				if !ok {
					sim.Yield("h#consumer-stopping")
					if final != nil {
						b, _ := json.Marshal(shadow)
						final <- string(b) // the store as it is on disk when the process dies
						sim.Yield("h#store-handed-over")
					}
					return
				}
				sim.Yield("h#consumed")
				vfFold(shadow, r)
				js, err := json.Marshal(r)
				lg.Add(sim.Ev{Kind: "result", N: int64(phase), Val: string(js), Err: vfErr(err)})
			}
		}
		s.Go("loop1", func(tk *sim.Task) { crew1.Loop(ctx1) })
		s.Go("consumer1", func(tk *sim.Task) { consume(ctx1, cp1.out, 1, storeCh) })
		s.Go("controller", func(tk *sim.Task) {
			for _, tm := range timers {
				msg := map[string]interface{}{"to": "timers", "makeTimer": map[string]interface{}{"id": tm.id, "in": tm.d.String(), "msg": map[string]interface{}{"to": "h", "id": tm.payload}}}
				lg.Add(sim.Ev{Kind: "make", Id: tm.id, Val: tm.payload, N: int64(tm.d)})
				sim.Yield("h#send")
				cp1.in <- vfJSONCopy(msg)
				sim.Yield("h#sent")
			}
			for _, tm := range timers {
				if tm.cancel {
					sim.Yield("h#send")
					cp1.in <- vfJSONCopy(map[string]interface{}{"to": "timers", "cancelTimer": tm.id})
					sim.Yield("h#sent")
					lg.Add(sim.Ev{Kind: "cancel", Id: tm.id})
				}
			}
			// a last message so that everything so far has been reported
			sim.Yield("h#send")
			cp1.in <- map[string]interface{}{"to": "nobody", "id": "flush"}
			sim.Yield("h#sent")
			sim.Sleep(crashAfter)
			lg.Add(sim.Ev{Kind: "crash"})
			crash()
			sim.Yield("h#crashed")
			st := <-storeCh
			sim.Yield("h#store-read")
			lg.Add(sim.Ev{Kind: "store", Val: st})
			sim.Sleep(downtime)
			var ms map[string]*crew.Machine
			if err := json.Unmarshal([]byte(st), &ms); err != nil {
				lg.Add(sim.Ev{Kind: "boot-error", Err: err.Error()})
				return
			}
			lg.Add(sim.Ev{Kind: "boot"})
			crew2, err := vfBootCtx(ctx2, ms)
			if err != nil {
				lg.Add(sim.Ev{Kind: "boot-error", Err: err.Error()})
				return
			}
			cp2in, cp2out := crew2.in, crew2.out
			tok := sim.Spawn("h#loop2")
			go func() { sim.Born(tok); defer sim.Done(tok); crew2.Loop(ctx2) }()
			tok2 := sim.Spawn("h#consumer2")
			go func() { sim.Born(tok2); defer sim.Done(tok2); consume(ctx2, cp2out, 2, nil) }()
			sim.Yield("h#booted")
			// the restarted crew takes requests like the first one did
			send2 := func(m map[string]interface{}) {
				sim.Yield("h#send")
				sim.SendOrDone("h#send-select", ctx2.Done(), (chan<- interface{})(cp2in), vfJSONCopy(m))
				sim.Yield("h#sent")
			}
			sim.Sleep(5 * time.Millisecond)
			for _, tm := range timers {
				if tm.cancel2 {
					send2(map[string]interface{}{"to": "timers", "cancelTimer": tm.id})
					lg.Add(sim.Ev{Kind: "cancel2", Id: tm.id})
				}
			}
			if make2 {
				send2(map[string]interface{}{"to": "timers", "makeTimer": map[string]interface{}{"id": "late", "in": "10ms", "msg": map[string]interface{}{"to": "h", "id": "plate"}}})
				lg.Add(sim.Ev{Kind: "make2", Id: "late"})
			}
			send2(map[string]interface{}{"to": "nobody", "id": "flush2"})
		})
		s.Run()
		crash()
		stop2()
		s.Drain(800)
	})
	if c.Infra != "" {
		return
	}
	_ = leak
	c.SimTime = c.Sched.SimTime
	evs := lg.Events()
	var fires []fire
	seenLog := map[int]int{}
	lastReported := map[string]bool{} // ids in the last timers state reported before the crash
	removedReported := map[string]bool{}
	everListed := map[string]bool{} // ids that some report before the crash listed as pending
	crashed := false
	staleReport := ""
	for _, e := range evs {
		c.MixHash(fmt.Sprintf("%d %s %s %s %d %v %s", e.Seq, e.Kind, e.Id, e.Err, e.N, e.At, vfShort(e.Val)))
		v := e.Val
		if len(v) > 260 {
			v = v[:260] + "..."
		}
		c.Logf("ev %d t=%v %-10s %s id=%s n=%d %s %s", e.Seq, e.At, e.Task, e.Kind, e.Id, e.N, v, e.Err)
		switch e.Kind {
		case "crash":
			crashAt = e.At
			crashed = true
		case "boot":
			bootAt = e.At
		case "boot-error":
			bootErr = e.Err
		case "store":
			stored = e.Val
			// the handler machine's log survives the restart: its old entries are not new firings
			var sm map[string]*crew.Machine
			if json.Unmarshal([]byte(stored), &sm) == nil && sm["h"] != nil && sm["h"].State != nil {
				if entries, ok := sm["h"].State.Bs["log"].([]interface{}); ok {
					seenLog[2] = len(entries)
				}
			}
		case "result":
			var r struct {
				Changed map[string]struct {
					State *struct {
						Bs map[string]interface{} `json:"bs"`
					}
				}
			}
			if json.Unmarshal([]byte(e.Val), &r) != nil {
				continue
			}
			phase := int(e.N)
			if tm, ok := r.Changed["timers"]; ok && tm.State != nil && phase == 1 {
				now := map[string]bool{}
				if mp, ok := tm.State.Bs["timers"].(map[string]interface{}); ok {
					for id := range mp {
						now[id] = true
						everListed[id] = true
					}
				}
				for id := range lastReported {
					if !now[id] {
						removedReported[id] = true
					}
				}
				lastReported = now
			}
			if h, ok := r.Changed["h"]; ok && h.State != nil {
				entries, _ := h.State.Bs["log"].([]interface{})
				for _, x := range entries[vfMin(seenLog[phase], len(entries)):] {
					em, _ := x.(map[string]interface{})
					at, _ := em["at"].(float64)
					fires = append(fires, fire{fmt.Sprint(em["id"]), time.Duration(int64(at)-t0.UnixMilli()) * time.Millisecond, phase})
					// the removal of a fired timer is published before its message is emitted, so by
					// the time the result of handling that message is out, no report may still list it
					if phase == 1 {
						p := fmt.Sprint(em["id"])
						for _, tm := range timers {
							if tm.payload == p && lastReported[tm.id] && staleReport == "" {
								staleReport = fmt.Sprintf("timer %s has fired (its message was handled) but the last reported timers state still lists it as pending", tm.id)
							}
						}
					}
				}
				seenLog[phase] = len(entries)
			}
		}
	}
	desc := fmt.Sprintf("timers %s; crash %v after the last request (at %v), downtime %v, boot at %v; fires %v", vfRtString(timers), crashAfter, crashAt, downtime, bootAt, fires)
	if staleReport != "" {
		c.Violate("timer:sio:restart:stale-report", "%s (%s)", staleReport, desc)
		return
	}
	if crashed {
		// Every request had been processed and reported when the crash came (the controller's
		// last message was taken after them).  The round that makes a timer cannot also handle
		// its message, so at the boundary after that round the timer's message is still to come
		// for the running crew: a crew rebuilt from the store at that boundary must know the
		// timer - the round's report has to list it, however soon it is due.
		for _, tm := range timers {
			if !everListed[tm.id] {
				c.Violate("timer:sio:restart:never-reported", "timer %s was made (its request was processed and reported) but no report ever listed it as pending: a crew rebuilt from the store right after that request would never send its message (%s)", tm.id, desc)
				return
			}
		}
	}
	if bootErr != "" {
		c.Violate("timer:sio:restart:boot-error", "the crew could not be rebuilt from the stored state: %s (%s)", bootErr, desc)
		return
	}
	if bootAt == 0 {
		c.Count("no_restart_happened")
		return
	}
	// what the store said was pending when the process died
	var ms map[string]*crew.Machine
	json.Unmarshal([]byte(stored), &ms)
	pending := map[string]bool{}
	if tm := ms["timers"]; tm != nil && tm.State != nil {
		b, _ := json.Marshal(tm.State.Bs["timers"])
		var mp map[string]interface{}
		json.Unmarshal(b, &mp)
		for id := range mp {
			pending[id] = true
		}
	}
	byPayload := map[string]*vfRtTimer{}
	madeAt := map[string]time.Duration{}
	for _, tm := range timers {
		byPayload[tm.payload] = tm
	}
	for _, e := range evs {
		if e.Kind == "make" {
			madeAt[e.Id] = e.At
		}
	}
	count1, count2 := map[string]int{}, map[string]int{}
	for _, f := range fires {
		tm := byPayload[f.payload]
		if tm == nil {
			continue
		}
		if f.phase == 1 {
			count1[tm.id]++
		} else {
			count2[tm.id]++
		}
		if due := madeAt[tm.id] + tm.d; f.at < due {
			c.Violate("timer:sio:restart:early", "timer %s fired at %v, before its due time %v (%s)", tm.id, f.at, due, desc)
			return
		}
	}
	complete := !c.Sched.Exhausted
	made2 := false
	cancelled2 := map[string]bool{}
	for _, e := range evs {
		switch e.Kind {
		case "make2":
			made2 = true
		case "cancel2":
			cancelled2[e.Id] = true
		}
	}
	if made2 {
		n2 := 0
		for _, f := range fires {
			if f.payload == "plate" && f.phase == 2 {
				n2++
			}
		}
		c.Count("timers_made_after_restart")
		if n2 > 1 || (complete && n2 == 0) {
			c.Violate("timer:sio:restart:request-after-restart", "a timer requested from the restarted crew (10ms) fired %d times (%s)", n2, desc)
			return
		}
	}
	for _, tm := range timers {
		if cancelled2[tm.id] {
			c.Count("timers_cancelled_after_restart")
			if count2[tm.id] > 0 {
				c.Violate("timer:sio:restart:cancel-after-restart", "timer %s (due an hour after its creation) was cancelled through the restarted crew and fired all the same (%s)", tm.id, desc)
				return
			}
			continue
		}
		c.Count("timers")
		switch {
		case pending[tm.id] && count1[tm.id] == 0:
			c.Count("pending_at_crash")
			if count2[tm.id] > 1 {
				c.Violate("timer:sio:restart:twice", "timer %s, pending in the store at the crash, fired %d times after the restart (%s)", tm.id, count2[tm.id], desc)
				return
			}
			if complete && count2[tm.id] == 0 {
				c.Violate("timer:sio:restart:lost", "timer %s was pending in the store at the crash but never fired after the restart (%s)", tm.id, desc)
				return
			}
			if count2[tm.id] == 1 {
				c.Count("resumed_after_restart")
			}
		case !pending[tm.id] && count2[tm.id] > 0:
			why := "was not in the stored timers state"
			if tm.cancel {
				why = "was cancelled before the crash"
			}
			c.Violate("timer:sio:restart:resurrected", "timer %s %s but fired after the restart (%s)", tm.id, why, desc)
			return
		}
	}
	c.Add("steps_with_choice", c.Sched.Switches)
	c.Path = fmt.Sprintf("%s|%v|%v|%v|%016x", vfRtString(timers), crashAfter, downtime, make2, c.Sched.Hash)
	c.Trivial = len(pending) == 0
	c.Sample = map[string]interface{}{"scenario": desc}
}

func vfRtString(ts []*vfRtTimer) string {
	var parts []string
	for _, t := range ts {
		s := fmt.Sprintf("%s(%v)", t.id, t.d)
		if t.cancel {
			s += "x"
		}
		if t.cancel2 {
			s += "y"
		}
		parts = append(parts, s)
	}
	sort.Strings(parts)
	return fmt.Sprint(parts)
}

// vfBootCtx is vfBoot with the machines already decoded.
func vfBootCtx(ctx context.Context, ms map[string]*crew.Machine) (*Crew, error) {
	c, _, err := vfNewCrew(ctx)
	if err != nil {
		return nil, err
	}
	mids := make([]string, 0, len(ms))
	for mid := range ms {
		mids = append(mids, mid)
	}
	sort.Strings(mids)
	for _, mid := range mids {
		m := ms[mid]
		if err := c.SetMachine(ctx, mid, m.SpecSource, m.State); err != nil {
			return nil, err
		}
	}
	return c, nil
}
