//go:build verif_sim

package sio

// C14 (sio half) and C08 (crew half): recorder machines and a counting oracle.
// The order in which the crew presents a message to its machines comes from map
// iteration, which the map-order seam permutes from the tape.

import (
	"context"
	"encoding/json"
	"fmt"
	"sort"
	"strings"
	"testing"
	"time"

	"verif/ref"
	"verif/sim"
)

func init() {
	vfRegistry["C14/sio"] = func(c *sim.Ctx, t *testing.T) { runC14Sio(c, t, false) }
	vfRegistry["C08/sio"] = func(c *sim.Ctx, t *testing.T) { runC14Sio(c, t, true) }
	vfRegistry["C14/sio-loop"] = runC14SioLoop
}

func runC14Sio(c *sim.Ctx, t *testing.T, failing bool) {
	sim.Install(c)
	defer sim.Uninstall()
	ctx := context.Background()
	crew, _, err := vfNewCrew(ctx)
	if err != nil {
		c.Infra = "NewCrew: " + err.Error()
		return
	}
	nm := 1 + c.Intn(5, "nmachines")
	var mids []string
	present := map[string]bool{"timers": true, "captain": true}
	recorders := map[string]bool{}
	for i := 0; i < nm; i++ {
		mid := fmt.Sprintf("r%d", i)
		mids = append(mids, mid)
		if err := crew.SetMachine(ctx, mid, vfSpecSource(), nil); err != nil {
			c.Infra = "SetMachine: " + err.Error()
			return
		}
		present[mid] = true
		recorders[mid] = true
	}
	g := &vfGen{c: c, mids: mids, fail: failing, spawn: !failing}
	nmsgs := 1 + c.Intn(4, "nmsgs")
	prop := "route"
	if failing {
		prop = "emit"
	}
	logged := map[string]int{} // per machine: how many log entries were already accounted for
	shape := ""
	if g.spawn && c.Chance(1, 5, "badspawn") {
		// (fault) the name the first machine created mid-cascade will get is first tried with a
		// spec that does not compile: that attempt fails and must leave no trace in the routing
		bad := map[string]interface{}{"name": "bad", "nodes": map[string]interface{}{"start": map[string]interface{}{"action": map[string]interface{}{"interpreter": "no-such-interpreter", "source": "return {};"}}}}
		m := map[string]interface{}{"id": "badspawn", "to": "captain", "update": map[string]interface{}{"late1": map[string]interface{}{"spec": map[string]interface{}{"inline": bad}}}}
		if c.Guard("ProcessMsg "+ref.Canon(m), func() { crew.ProcessMsg(ctx, vfJSONCopy(m)) }) {
			return
		}
		c.Count("failed_creations")
	}
	if c.Chance(1, 5, "badupdate") {
		// (fault) an operator's update gives an existing machine a spec that does not compile:
		// the request fails, the machine stays what and where it was
		victim := mids[c.Intn(len(mids), "badupdatemid")]
		bad := map[string]interface{}{"name": "bad", "nodes": map[string]interface{}{"start": map[string]interface{}{"action": map[string]interface{}{"interpreter": "no-such-interpreter", "source": "return {};"}}}}
		m := map[string]interface{}{"id": "badupdate", "to": "captain", "update": map[string]interface{}{victim: map[string]interface{}{"spec": map[string]interface{}{"inline": bad}}}}
		if c.Guard("ProcessMsg "+ref.Canon(m), func() { crew.ProcessMsg(ctx, vfJSONCopy(m)) }) {
			return
		}
		c.Count("failed_spec_updates")
	}
	poisoned := map[string]bool{}
	for k := 0; k < nmsgs; k++ {
		if !failing && k > 0 && len(mids) > 1 && c.Chance(1, 6, "replace") {
			// between two submitted messages the host replaces a machine: one is deleted and a
			// new one (another id) created, with no broadcast in between
			gone := mids[c.Intn(len(mids), "gone")]
			fresh := fmt.Sprintf("x%d", k)
			b, _ := json.Marshal(vfRecorderSpec())
			var specJSON interface{}
			json.Unmarshal(b, &specJSON)
			ops := []map[string]interface{}{
				{"id": fmt.Sprintf("del%d", k), "to": "captain", "delete": []interface{}{gone}},
				{"id": fmt.Sprintf("new%d", k), "to": "captain", "update": map[string]interface{}{fresh: map[string]interface{}{"spec": map[string]interface{}{"inline": specJSON}}}},
			}
			if c.Bool("createfirst") {
				ops[0], ops[1] = ops[1], ops[0]
			}
			for _, m := range ops {
				var perr error
				if c.Guard("ProcessMsg "+ref.Canon(m), func() { _, perr = crew.ProcessMsg(ctx, vfJSONCopy(m)) }) {
					return
				}
				if perr != nil {
					c.Violate(prop+":sio:error", "ProcessMsg(%s) failed: %v", vfShort(ref.Canon(m)), perr)
					return
				}
			}
			delete(present, gone)
			delete(recorders, gone)
			var rest []string
			for _, m := range mids {
				if m != gone {
					rest = append(rest, m)
				}
			}
			mids = append(rest, fresh)
			present[fresh], recorders[fresh] = true, true
			g.mids = mids
			c.Count("machines_replaced")
		}
		msg := g.message(2)
		if c.Chance(1, 6, "wreck") {
			// (only on a submitted message: the order within a round of a cascade is unspecified)
			msg["wreck"] = map[string]interface{}{mids[c.Intn(nm, "wrecked")]: true}
			c.Count("machines_told_to_wreck")
		}
		want := vfPredict(msg, present, recorders, poisoned)
		var res *Result
		var perr error
		if c.Guard("ProcessMsg "+ref.Canon(msg), func() { res, perr = crew.ProcessMsg(ctx, vfJSONCopy(msg)) }) {
			return
		}
		if perr != nil || res == nil {
			c.Violate(prop+":sio:error", "ProcessMsg(%s) failed: %v", ref.Canon(msg), perr)
			return
		}
		c.Count("messages_submitted")
		c.Add("messages_processed", want.count)
		before := append([]string{}, mids...)
		var late []string
		for name := range want.spawned {
			late = append(late, name)
		}
		sort.Strings(late)
		mids = append(mids, late...)
		c.Add("machines_created_mid_cascade", len(late))
		desc := fmt.Sprintf("submitted %s to a crew of %v", vfShort(ref.Canon(msg)), before)
		// who saw what, how often
		for _, mid := range mids {
			ids := vfLogIds(crew.Machines[mid])
			got := ids[logged[mid]:]
			logged[mid] = len(ids)
			w := want.seen[mid]
			if opt := want.optional[mid]; len(opt) > 0 {
				// a machine created in this round may or may not have existed for the
				// round's other messages: drop those it was free to miss or see
				var g2 []string
				for _, id := range got {
					if !opt[id] {
						g2 = append(g2, id)
					}
				}
				got = g2
			}
			gs, ws := append([]string{}, got...), append([]string{}, w...)
			sort.Strings(gs)
			sort.Strings(ws)
			if vfJoin(gs) != vfJoin(ws) {
				kind := "miss"
				if len(gs) > len(ws) {
					kind = "dup-or-stray"
				}
				cnt := map[string]int{}
				for _, x := range gs {
					cnt[x]++
				}
				for _, n := range cnt {
					if n > 1 {
						kind = "dup"
					}
				}
				c.Violate(prop+":sio:"+kind, "%s: machine %s was presented [%s], addressed to it were [%s]", desc, mid, vfJoin(got), vfJoin(w))
				return
			}
			// breadth-first: depths never decrease along a machine's log
			last := 0
			for _, id := range got {
				d := want.depth[id]
				if d < last {
					c.Violate(prop+":sio:not-breadth-first", "%s: machine %s processed %s (depth %d) after a deeper message; its log: [%s]", desc, mid, id, d, vfJoin(got))
					return
				}
				last = d
			}
		}
		// reported exactly once, batch by batch
		var gotB []string
		for _, b := range res.Emitted {
			gotB = append(gotB, ref.Canon(b))
		}
		sort.Strings(gotB)
		if vfJoin(gotB) != vfJoin(want.batches) {
			kind := "unreported"
			if len(gotB) > len(want.batches) {
				kind = "extra"
			}
			c.Violate(prop+":sio:"+kind, "%s: Result.Emitted batches %v, expected (one per machine and message, in emission order) %v", desc, gotB, want.batches)
			return
		}
		c.Add("batches", len(gotB))
		shape += fmt.Sprintf("%d/%d;", want.count, len(gotB))
	}
	c.MixHash(shape)
	c.Path = fmt.Sprintf("%d|%s|%d", nm, shape, g.n)
	c.Trivial = g.n < 2
	c.Sample = map[string]interface{}{"machines": mids, "messages": nmsgs, "processed/batches": shape}
}

// vfShort abbreviates inline specs in a rendered message.
func vfShort(txt string) string {
	for {
		j := strings.Index(txt, `"inline":{`)
		if j < 0 {
			return txt
		}
		k := strings.Index(txt[j:], `"type":"message"}}}}`)
		if k < 0 {
			return txt
		}
		txt = txt[:j] + `"inline":"<recorder spec>"` + txt[j+k+len(`"type":"message"}}}}`):]
	}
}

// runC14SioLoop: the same counting oracle, but through the crew's own Loop (in/out
// channels, a consumer) under the serial scheduler - and with messages that make a
// recipient compute a state that cannot be encoded, so that ProcessMsg fails at its
// very end, after every addressed machine has been walked.  Only delivery counts are
// asserted here (a failed ProcessMsg reports nothing).
func runC14SioLoop(c *sim.Ctx, t *testing.T) {
	nm := 1 + c.Intn(4, "nmachines")
	var mids []string
	present := map[string]bool{"timers": true, "captain": true}
	recorders := map[string]bool{}
	for i := 0; i < nm; i++ {
		mid := fmt.Sprintf("r%d", i)
		mids = append(mids, mid)
		present[mid] = true
		recorders[mid] = true
	}
	g := &vfGen{c: c, mids: mids}
	nmsgs := 1 + c.Intn(4, "nmsgs")
	// half of the crews also have a machine without state: it emits and never changes, so
	// that results come by which report emissions and no change at all
	echo := c.Bool("echo")
	if echo {
		present[vfEchoMid] = true
	}
	anyNan := false
	var msgs []map[string]interface{}
	want := map[string][]string{}
	var wantBatches []string
	poisoned := map[string]bool{}
	for k := 0; k < nmsgs; k++ {
		m := g.message(2)
		if !echo && c.Chance(1, 4, "nan") {
			anyNan = true
			// only on a submitted message: within a cascade the order of one round's
			// messages is unspecified, and with it which of them a poisoned machine misses
			m["nan"] = map[string]interface{}{mids[c.Intn(len(mids), "nanmid")]: true}
		}
		msgs = append(msgs, m)
		md := vfPredict(m, present, recorders, poisoned)
		for mid, ids := range md.seen {
			want[mid] = append(want[mid], ids...)
		}
		wantBatches = append(wantBatches, md.batches...)
		for _, id := range md.echo {
			wantBatches = append(wantBatches, ref.Canon([]interface{}{map[string]interface{}{"id": "echo-" + id, "to": "nobody"}}))
		}
		if echo && c.Bool("toecho") {
			// a message for the stateless machine alone: its result carries an emission and no change
			m2 := map[string]interface{}{"id": g.id(), "to": vfEchoMid}
			msgs = append(msgs, m2)
			md2 := vfPredict(m2, present, recorders, poisoned)
			for _, id := range md2.echo {
				wantBatches = append(wantBatches, ref.Canon([]interface{}{map[string]interface{}{"id": "echo-" + id, "to": "nobody"}}))
			}
			c.Count("messages_for_the_stateless_emitter_alone")
		}
	}
	got := map[string][]string{}
	var gotBatches []string
	nresults := 0
	sim.Bubble(c, t, func(s *sim.Sched) {
		s.Horizon = time.Minute
		s.MaxSteps = 20000
		ctx, cancel := context.WithCancel(context.Background())
		crew, cp, err := vfNewCrew(ctx)
		if err != nil {
			c.Infra = "NewCrew: " + err.Error()
			cancel()
			return
		}
		for _, mid := range mids {
			if err := crew.SetMachine(ctx, mid, vfSpecSource(), nil); err != nil {
				c.Infra = "SetMachine: " + err.Error()
				cancel()
				return
			}
		}
		if echo {
			if err := crew.SetMachine(ctx, vfEchoMid, vfEchoSource(), nil); err != nil {
				c.Infra = "SetMachine: " + err.Error()
				cancel()
				return
			}
		}
		s.Go("loop", func(tk *sim.Task) { crew.Loop(ctx) })
		s.Go("consumer", func(tk *sim.Task) {
			for {
				sim.Yield("h#consume")
				r, ok := sim.RecvOrDone("h#consume-select", ctx.Done(), (<-chan *Result)(cp.out))
				if !ok {
					return
				}
				sim.Yield("h#consumed")
				nresults++
				if r != nil {
					for _, b := range r.Emitted {
						gotBatches = append(gotBatches, ref.Canon(b))
					}
				}
			}
		})
		s.Go("submitter", func(tk *sim.Task) {
			for _, m := range msgs {
				sim.Yield("h#send")
				if !sim.SendOrDone("h#send-select", ctx.Done(), (chan<- interface{})(cp.in), vfJSONCopy(m)) {
					return
				}
				sim.Yield("h#sent")
			}
			// one last message: when the loop takes it, everything before has been processed
			sim.Yield("h#send")
			sim.SendOrDone("h#send-select", ctx.Done(), (chan<- interface{})(cp.in), interface{}(map[string]interface{}{"to": "nobody", "id": "flush"}))
			sim.Yield("h#sent")
		})
		s.Run()
		cancel()
		s.Drain(800)
		if !c.Sched.Exhausted {
			for _, mid := range mids {
				got[mid] = vfLogIds(crew.Machines[mid])
			}
		}
	})
	if c.Infra != "" {
		return
	}
	if c.Sched.Exhausted || len(c.Sched.Stuck) > 0 {
		c.Count("budget_exhausted_unfinished")
		c.Trivial = true
		return
	}
	desc := fmt.Sprintf("submitted %s through the crew's Loop to %v", vfShort(ref.Canon(msgs)), mids)
	for _, mid := range mids {
		gs, ws := append([]string{}, got[mid]...), append([]string{}, want[mid]...)
		sort.Strings(gs)
		sort.Strings(ws)
		if vfJoin(gs) != vfJoin(ws) {
			kind := "miss"
			cnt := map[string]int{}
			for _, x := range gs {
				cnt[x]++
			}
			for _, n := range cnt {
				if n > 1 {
					kind = "dup"
				}
			}
			c.Violate("route:sio-loop:"+kind, "%s: machine %s was presented [%s], addressed to it were [%s]", desc, mid, vfJoin(got[mid]), vfJoin(want[mid]))
			return
		}
		c.Add("deliveries", len(gs))
	}
	if !anyNan {
		// every emitted message is reported to the host exactly once - here: in the results the
		// loop hands to its couplings (a failed ProcessMsg reports nothing, so runs with a
		// machine that cannot be encoded are left out)
		sort.Strings(gotBatches)
		sort.Strings(wantBatches)
		if vfJoin(gotBatches) != vfJoin(wantBatches) {
			kind := "unreported"
			if len(gotBatches) > len(wantBatches) {
				kind = "extra"
			}
			c.Violate("route:sio-loop:"+kind, "%s: the results handed to the couplings carry the batches %v, expected (one per machine and message that emitted) %v", desc, gotBatches, wantBatches)
			return
		}
		c.Add("batches_reported", len(gotBatches))
		if echo {
			c.Count("runs_with_stateless_emitter")
		}
	}
	c.Add("results", nresults)
	c.Add("steps_with_choice", c.Sched.Switches)
	c.Path = fmt.Sprintf("%d|%d|%016x", nm, g.n, c.Sched.Hash)
	c.Trivial = g.n < 2
	c.Sample = map[string]interface{}{"machines": mids, "messages": vfShort(ref.Canon(msgs))}
}
