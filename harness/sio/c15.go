//go:build verif_sim

package sio

// C15: a shadow store folded from Result.Changed (exactly as sio/stdio.go folds
// it) is compared with the live crew after every message; and for every
// message boundary a twin crew is booted from the shadow store (JSON round
// trip, documented boot path) and must behave identically from then on.

import (
	"context"
	"encoding/json"
	"fmt"
	"os"
	"path/filepath"
	"sort"
	"strings"
	"testing"

	"github.com/Comcast/sheens/core"
	"github.com/Comcast/sheens/crew"

	"verif/ref"
	"verif/sim"
)

func init() { vfRegistry["C15"] = runC15 }

type vfOp struct {
	kind string // create | state | spec | delete | msg
	mid  string
	msg  map[string]interface{}
}

// vfFlipperSpec: a machine without memory that alternates between two nodes on
// every message it is shown and emits what the message tells it to - so within
// one processed message it can leave a state and come back to exactly it.
func vfFlipperSpec() *core.Spec {
	js := `var m = _.bindings["?m"]; var mid = _.props.mid;
if (m && typeof m === "object") { var emits = (m.emit && m.emit[mid]) || []; for (var i = 0; i < emits.length; i++) { _.out(emits[i]); } }
return {};`
	node := func(next string) *core.Node {
		return &core.Node{ActionSource: &core.ActionSource{Interpreter: "ecmascript", Source: js},
			Branches: &core.Branches{Type: "bindings", Branches: []*core.Branch{{Target: next}}}}
	}
	wait := func(next string) *core.Node {
		return &core.Node{Branches: &core.Branches{Type: "message", Branches: []*core.Branch{{Pattern: "?m", Target: next}}}}
	}
	return &core.Spec{Name: "flipper", Nodes: map[string]*core.Node{
		"start": wait("toB"), "toB": node("other"), "other": wait("toA"), "toA": node("start"),
	}}
}

// vfGaugeSpec: a machine that remembers a number from a message in a pattern variable and
// lets the matcher compare later messages with it - the matcher, not a script, looks at a
// number that went through the store.
func vfGaugeSpec() *core.Spec {
	act := func(src, next string) *core.Node {
		return &core.Node{ActionSource: &core.ActionSource{Interpreter: "ecmascript", Source: src},
			Branches: &core.Branches{Type: "bindings", Branches: []*core.Branch{{Target: next}}}}
	}
	return &core.Spec{Name: "gauge",
		// (a declared parameter with a default: sio takes no notice of it; a binding of that
		// name that the machine has dropped must stay dropped)
		ParamSpecs: map[string]core.ParamSpec{"limit": {PrimitiveType: "number", Default: 9.0, Optional: true}},
		Nodes: map[string]*core.Node{
			"start": {Branches: &core.Branches{Type: "message", Branches: []*core.Branch{{Pattern: map[string]interface{}{"gauge": "?g"}, Target: "arm"}}}},
			"arm":   act(`return {"?g": _.bindings["?g"], "n": 0, "limit": _.bindings["?g"] + 1};`, "armed"),
			"armed": {Branches: &core.Branches{Type: "message", Branches: []*core.Branch{
				{Pattern: map[string]interface{}{"gauge": "?g"}, Target: "hit"},
				{Pattern: map[string]interface{}{"gauge": "?"}, Target: "miss"}}}},
			"hit":  act(`var b = _.bindings; b.n = b.n + 1; _.out({"hit": b.n}); return b;`, "armed"),
			"miss": act(`var b = _.bindings; b.n = b.n + 1; delete b.limit; _.out({"miss": b.n, "limit": b.limit === undefined ? "none" : b.limit}); return b;`, "armed"),
		}}
}

func vfGaugeJSON() interface{} {
	b, _ := json.Marshal(vfGaugeSpec())
	var x interface{}
	json.Unmarshal(b, &x)
	return x
}

func vfFlipperJSON() interface{} {
	b, _ := json.Marshal(vfFlipperSpec())
	var x interface{}
	json.Unmarshal(b, &x)
	return x
}

func vfSpecJSON(version int) interface{} {
	b, _ := json.Marshal(vfRecorderSpecV(false, version))
	var x interface{}
	json.Unmarshal(b, &x)
	return x
}

// vfFold applies a result's changes to the shadow store the way Stdio does.
func vfFold(shadow map[string]*crew.Machine, r *Result) {
	// (in a fixed order: the copies below pass through instrumented code - tape draws and
	// yields - so the runtime's random map order would make a run unrepeatable)
	mids := make([]string, 0, len(r.Changed))
	for mid := range r.Changed {
		mids = append(mids, mid)
	}
	sort.Strings(mids)
	for _, mid := range mids {
		m := r.Changed[mid]
		if m.Deleted {
			delete(shadow, mid)
			continue
		}
		n, have := shadow[mid]
		if !have {
			n = &crew.Machine{}
			shadow[mid] = n
		}
		if m.State != nil {
			n.State = m.State.Copy()
		}
		if m.SpecSrc != nil {
			n.SpecSource = m.SpecSrc.Copy()
		}
	}
}

// vfSpecCanon renders a spec source modulo compilation.
func vfSpecCanon(src *crew.SpecSource) string {
	if src == nil {
		return "none"
	}
	if src.Inline == nil && src.URL == "" {
		// a source without text or location resolves to no specification (the crew keeps no
		// source for such a machine): the same as none
		return "none"
	}
	if src.Inline == nil {
		return "name:" + src.Name + " url:" + src.URL
	}
	b, err := json.Marshal(src.Inline)
	if err != nil {
		return "unmarshalable:" + err.Error()
	}
	var sp core.Spec
	if err := json.Unmarshal(b, &sp); err != nil {
		return "unparsable:" + err.Error()
	}
	if err := sp.Compile(context.Background(), Interpreters, true); err != nil {
		return "uncompilable:" + err.Error()
	}
	b, _ = json.Marshal(&sp)
	var x interface{}
	json.Unmarshal(b, &x)
	return ref.Canon(x)
}

func vfMachineCanon(m *crew.Machine) string {
	if m == nil {
		return "nil"
	}
	if m.State == nil {
		// a stored machine without a state boots in the default state
		return "start/{}"
	}
	// The order in which the machines of a crew see the messages of one round
	// is unspecified, so a recorder's log is compared as a multiset.
	bs := map[string]interface{}{}
	for k, v := range m.State.Bs {
		if k == "lastBindings" {
			// the diagnostic copy of the bindings a failed step started from (it holds the
			// log in its order of arrival, which is not specified within a round)
			continue
		}
		bs[k] = v
	}
	if lg, ok := bs["log"].([]interface{}); ok {
		items := make([]string, len(lg))
		for i, e := range lg {
			items[i] = ref.Canon(e)
		}
		sort.Strings(items)
		bs["log"] = items
	}
	return m.State.NodeName + "/" + ref.Canon(bs)
}

func vfOrdinary(c *Crew) []string {
	var out []string
	for mid := range c.Machines {
		if mid != TimersMachine && mid != CaptainMachine {
			out = append(out, mid)
		}
	}
	sort.Strings(out)
	return out
}

// vfBootViaStdio: the next vfBoot reads the stored crew through sio.Stdio.Read.
var vfBootViaStdio bool

// vfBoot builds a crew from a stored crew through the documented boot path.
func vfBoot(ctx context.Context, stored map[string]*crew.Machine) (*Crew, error) {
	b, err := json.Marshal(stored)
	if err != nil {
		return nil, err
	}
	var ms map[string]*crew.Machine
	if vfBootViaStdio {
		// as siostd does: the state file is read back by the Stdio couplings
		dir := os.Getenv("VERIF_SCRATCH")
		if dir == "" {
			dir = os.TempDir()
		}
		f := filepath.Join(dir, "state.json")
		if err := os.WriteFile(f, b, 0o644); err != nil {
			return nil, err
		}
		defer os.Remove(f)
		st := NewStdio(false)
		st.StateInputFilename = f
		if ms, err = st.Read(ctx); err != nil {
			return nil, err
		}
	} else if err := json.Unmarshal(b, &ms); err != nil {
		return nil, err
	}
	c, _, err := vfNewCrew(ctx)
	if err != nil {
		return nil, err
	}
	mids := make([]string, 0, len(ms))
	for mid := range ms {
		mids = append(mids, mid)
	}
	sort.Strings(mids)
	for _, mid := range mids {
		m := ms[mid]
		if err := c.SetMachine(ctx, mid, m.SpecSource, m.State); err != nil {
			return nil, err
		}
	}
	return c, nil
}

func runC15(c *sim.Ctx, t *testing.T) {
	sim.Install(c)
	defer sim.Uninstall()
	ctx := context.Background()
	mids := []string{"r0", "r1", "r2"}[:1+c.Intn(3, "nmids")]
	g := &vfGen{c: c, mids: mids}
	nops := 2 + c.Intn(7, "nops")
	exists := map[string]bool{}
	var ops []vfOp
	for i := 0; i < nops; i++ {
		mid := mids[c.Intn(len(mids), "opmid")]
		k := c.Intn(13, "opkind")
		switch {
		case !exists[mid] && k < 6, k == 0, k == 4:
			version := 1 + c.Intn(2, "version")
			st := map[string]interface{}{"node": "start", "bs": map[string]interface{}{}}
			if c.Bool("withlog") {
				st["bs"] = map[string]interface{}{"log": []interface{}{map[string]interface{}{"id": "seed"}}}
			}
			if c.Chance(1, 3, "permanent") {
				// a permanent binding: actions cannot remove it, an operator who replaces the state can
				st["bs"].(map[string]interface{})["owner!"] = "ops"
			}
			m := map[string]interface{}{"spec": map[string]interface{}{"inline": vfSpecJSON(version)}}
			if c.Chance(3, 4, "withstate") {
				m["state"] = st
			}
			ops = append(ops, vfOp{kind: "create", mid: mid, msg: map[string]interface{}{"to": "captain", "update": map[string]interface{}{mid: m}}})
			exists[mid] = true
		case k == 1:
			// states come from a small pool, so a machine can return to exactly a state it was in before
			st := map[string]interface{}{"node": "start", "bs": map[string]interface{}{"log": []interface{}{map[string]interface{}{"id": []string{"resetA", "resetB"}[c.Intn(2, "statepool")]}}}}
			ops = append(ops, vfOp{kind: "state", mid: mid, msg: map[string]interface{}{"to": "captain", "update": map[string]interface{}{mid: map[string]interface{}{"state": st}}}})
		case k == 2 && c.Chance(1, 4, "specbyname"):
			// a spec source that names a spec but carries neither text nor location: whatever the
			// crew makes of it, the machine and the report must agree
			src := []interface{}{map[string]interface{}{"name": "double"}, map[string]interface{}{}}[c.Intn(2, "emptysrc")]
			ops = append(ops, vfOp{kind: "specbyname", mid: mid, msg: map[string]interface{}{"to": "captain", "update": map[string]interface{}{mid: map[string]interface{}{"spec": src}}}})
		case k == 2:
			ops = append(ops, vfOp{kind: "spec", mid: mid, msg: map[string]interface{}{"to": "captain", "update": map[string]interface{}{mid: map[string]interface{}{"spec": map[string]interface{}{"inline": vfSpecJSON(1 + c.Intn(2, "version"))}}}}})
		case k == 12 && !exists[mid] && c.Bool("badcreate"):
			// the creation of a new machine fails (its spec does not compile) although the request
			// carries a state: whatever is left of the attempt, reports and crew have to agree
			bad := map[string]interface{}{"name": "bad", "nodes": map[string]interface{}{"start": map[string]interface{}{"action": map[string]interface{}{"interpreter": "no-such-interpreter", "source": "return {};"}}}}
			ops = append(ops, vfOp{kind: "badcreate", mid: mid, msg: map[string]interface{}{"to": "captain", "update": map[string]interface{}{mid: map[string]interface{}{
				"spec": map[string]interface{}{"inline": bad}, "state": map[string]interface{}{"node": "start", "bs": map[string]interface{}{"log": []interface{}{map[string]interface{}{"id": "seed"}}}}}}}})
		case k == 12 && exists[mid]:
			// an update whose specification does not compile (fault): whatever the crew makes of
			// it, what it reports has to be what it did
			bad := map[string]interface{}{"name": "bad", "nodes": map[string]interface{}{"start": map[string]interface{}{"action": map[string]interface{}{"interpreter": "no-such-interpreter", "source": "return {};"}}}}
			ops = append(ops, vfOp{kind: "badspec", mid: mid, msg: map[string]interface{}{"to": "captain", "update": map[string]interface{}{mid: map[string]interface{}{"spec": map[string]interface{}{"inline": bad}}}}})
		case k == 3:
			ops = append(ops, vfOp{kind: "delete", mid: mid, msg: map[string]interface{}{"to": "captain", "delete": []interface{}{mid}}})
			exists[mid] = false
		case k == 7, k == 11:
			// a flipper machine, and a message that makes it leave its state and return to it in one round
			fid := "f" + mid
			if !exists[fid] {
				ops = append(ops, vfOp{kind: "create", mid: fid, msg: map[string]interface{}{"to": "captain", "update": map[string]interface{}{fid: map[string]interface{}{"spec": map[string]interface{}{"inline": vfFlipperJSON()}}}}})
				exists[fid] = true
			}
			hops := 1 + c.Intn(3, "flips")
			var chain map[string]interface{}
			for h := 0; h < hops; h++ {
				m := map[string]interface{}{"to": fid, "id": fmt.Sprintf("flip%d.%d", i, h)}
				if chain != nil {
					m["emit"] = map[string]interface{}{fid: []interface{}{chain}}
				}
				chain = m
			}
			ops = append(ops, vfOp{kind: "flip", mid: fid, msg: chain})
		case k == 8 && exists[mid] && c.Chance(1, 6, "longcascade"):
			// one message that sets off a long chain of self-addressed messages
			n := 101 + c.Intn(20, "chainlen")
			var chain map[string]interface{}
			for h := n; h > 0; h-- {
				m := map[string]interface{}{"to": mid, "id": fmt.Sprintf("ch%d.%d", i, h)}
				if chain != nil {
					m["emit"] = map[string]interface{}{mid: []interface{}{chain}}
				}
				chain = m
			}
			ops = append(ops, vfOp{kind: "chain", mid: mid, msg: chain})
		case k == 10 && exists[mid]:
			// one message for the captain and for the machine it updates: the captain replaces
			// the machine's state, then the machine itself sees the message
			st := map[string]interface{}{"node": "start", "bs": map[string]interface{}{"log": []interface{}{map[string]interface{}{"id": []string{"resetA", "resetB"}[c.Intn(2, "statepool")]}}}}
			ops = append(ops, vfOp{kind: "update+msg", mid: mid, msg: map[string]interface{}{"to": []interface{}{"captain", mid}, "update": map[string]interface{}{mid: map[string]interface{}{"state": st}}}})
		case k == 9:
			// a gauge machine and a reading for it
			gid := "g" + mid
			if !exists[gid] {
				ops = append(ops, vfOp{kind: "create", mid: gid, msg: map[string]interface{}{"to": "captain", "update": map[string]interface{}{gid: map[string]interface{}{"spec": map[string]interface{}{"inline": vfGaugeJSON()}}}}})
				exists[gid] = true
			}
			if c.Chance(1, 4, "gaugestate") {
				// the host sets the gauge's state outright: a number in a pattern variable
				ops = append(ops, vfOp{kind: "state", mid: gid, msg: map[string]interface{}{"to": "captain", "update": map[string]interface{}{gid: map[string]interface{}{
					"state": map[string]interface{}{"node": "armed", "bs": map[string]interface{}{"?g": []interface{}{1.0, 2.0}[c.Intn(2, "armedat")], "n": 0.0}}}}}})
			}
			ops = append(ops, vfOp{kind: "gauge", mid: gid, msg: map[string]interface{}{"to": gid, "gauge": []interface{}{1.0, 2.0, 2.5}[c.Intn(3, "reading")]}})
		case k == 6 && exists[mid]:
			// within one processed message: a machine tells the captain to delete a
			// machine and then to create it again (or the other way round)
			other := mids[c.Intn(len(mids), "cascademid")]
			del := map[string]interface{}{"id": fmt.Sprintf("c%dd", i), "to": "captain", "delete": []interface{}{other}}
			mk := map[string]interface{}{"id": fmt.Sprintf("c%dc", i), "to": "captain", "update": map[string]interface{}{other: map[string]interface{}{"spec": map[string]interface{}{"inline": vfSpecJSON(1 + c.Intn(2, "version"))}}}}
			ckind := "cascade"
			if c.Chance(1, 4, "recreate-without-spec") {
				ckind = "cascade-nospec"
				// the new machine is given a state only (it will never move: it has no spec)
				mk["update"] = map[string]interface{}{other: map[string]interface{}{"state": map[string]interface{}{"node": "start", "bs": map[string]interface{}{"fresh": float64(i)}}}}
			}
			seq := []interface{}{del, mk}
			if c.Chance(1, 3, "createfirst") {
				seq = []interface{}{mk, del}
				exists[other] = false
			} else {
				exists[other] = true
			}
			ops = append(ops, vfOp{kind: ckind, mid: mid, msg: map[string]interface{}{"to": mid, "emit": map[string]interface{}{mid: seq}}})
		default:
			ops = append(ops, vfOp{kind: "msg", msg: g.message(1)})
		}
	}
	for i := range ops {
		ops[i].msg["id"] = fmt.Sprintf("op%d", i)
	}

	type obs struct {
		machines map[string]string
		batches  []string
	}
	observe := func(cr *Crew, r *Result) obs {
		o := obs{machines: map[string]string{}}
		for _, mid := range vfOrdinary(cr) {
			o.machines[mid] = vfMachineCanon(cr.Machines[mid])
		}
		for _, b := range r.Emitted {
			o.batches = append(o.batches, ref.Canon(b))
		}
		sort.Strings(o.batches)
		return o
	}
	history := func() string {
		s := ""
		for i, op := range ops {
			txt := ref.Canon(op.msg)
			if j := strings.Index(txt, `"inline":{`); j > 0 {
				v := "v1"
				if strings.Contains(txt, `\"v\": 2`) {
					v = "v2"
				}
				if strings.Contains(txt, `"name":"flipper"`) {
					v = "flipper"
				}
				k := strings.Index(txt[j:], `"type":"message"}}}}`)
				if k > 0 {
					txt = txt[:j] + `"inline":"<recorder spec ` + v + `>"` + txt[j+k+len(`"type":"message"}}}}`):]
				}
			}
			s += fmt.Sprintf("\n  %d %s %s %s", i, op.kind, op.mid, txt)
		}
		return s
	}

	// ---- the original crew with its shadow store
	live, _, err := vfNewCrew(ctx)
	if err != nil {
		c.Infra = "NewCrew: " + err.Error()
		return
	}
	shadow := map[string]*crew.Machine{}
	var trace []obs
	var shadows []string // JSON of the shadow store at each boundary (before op i)
	shape := ""
	for i, op := range ops {
		b, _ := json.Marshal(shadow)
		shadows = append(shadows, string(b))
		var r *Result
		var perr error
		if c.Guard("ProcessMsg "+ref.Canon(op.msg), func() { r, perr = live.ProcessMsg(ctx, vfJSONCopy(op.msg)) }) {
			return
		}
		if perr != nil || r == nil {
			c.Violate("shadow:error:"+op.kind, "ProcessMsg failed at op %d (%s): %v%s", i, op.kind, perr, history())
			return
		}
		vfFold(shadow, r)
		c.Count("ops_" + op.kind)
		shape += op.kind[:2]
		// shadow == live
		for _, mid := range vfOrdinary(live) {
			m := live.Machines[mid]
			sm, have := shadow[mid]
			if !have {
				c.Violate("shadow:missing:"+op.kind, "after op %d (%s %s) machine %s exists in the crew but no change ever reported it%s", i, op.kind, op.mid, mid, history())
				return
			}
			if vfMachineCanon(sm) != vfMachineCanon(m) {
				c.Violate("shadow:state:"+op.kind, "after op %d (%s %s) machine %s is at %s but the reported changes give %s%s", i, op.kind, op.mid, mid, vfMachineCanon(m), vfMachineCanon(sm), history())
				return
			}
			if a, b := vfSpecCanon(m.SpecSource), vfSpecCanon(sm.SpecSource); a != b {
				c.Violate("shadow:spec:"+op.kind, "after op %d (%s %s) machine %s runs a spec that differs from the reported one%s", i, op.kind, op.mid, mid, history())
				return
			}
		}
		for mid := range shadow {
			if mid == TimersMachine || mid == CaptainMachine {
				continue
			}
			if _, have := live.Machines[mid]; !have {
				c.Violate("shadow:stale:"+op.kind, "after op %d (%s %s) machine %s is gone from the crew but still in the store built from the reported changes%s", i, op.kind, op.mid, mid, history())
				return
			}
		}
		trace = append(trace, observe(live, r))
	}

	// ---- crash and restart at every boundary
	for b := 1; b < len(ops); b++ {
		var stored map[string]*crew.Machine
		json.Unmarshal([]byte(shadows[b]), &stored)
		var twin *Crew
		var berr error
		vfBootViaStdio = c.Bool("viastdio")
		if c.Guard("boot from the store", func() { twin, berr = vfBoot(ctx, stored) }) {
			return
		}
		if berr != nil {
			c.Violate("restart:boot-error", "a crew could not be rebuilt from the store at boundary %d: %v%s", b, berr, history())
			return
		}
		c.Count("restarts")
		// the rebuilt crew's own reports continue the store it was built from
		tshadow := map[string]*crew.Machine{}
		json.Unmarshal([]byte(shadows[b]), &tshadow)
		for i := b; i < len(ops); i++ {
			var r *Result
			var perr error
			if c.Guard("ProcessMsg (rebuilt crew)", func() { r, perr = twin.ProcessMsg(ctx, vfJSONCopy(ops[i].msg)) }) {
				return
			}
			if perr != nil || r == nil {
				c.Violate("restart:error", "the crew rebuilt at boundary %d failed at op %d: %v%s", b, i, perr, history())
				return
			}
			vfFold(tshadow, r)
			for _, mid := range vfOrdinary(twin) {
				sm, have := tshadow[mid]
				if !have || vfMachineCanon(sm) != vfMachineCanon(twin.Machines[mid]) {
					c.Violate("restart:shadow:"+ops[i].kind, "the crew rebuilt from the store before op %d: after op %d (%s) its machine %s is at %s, but the store continued with its reports gives %s%s",
						b, i, ops[i].kind, mid, vfMachineCanon(twin.Machines[mid]), vfMachineCanon(sm), history())
					return
				}
			}
			for mid := range tshadow {
				if mid == TimersMachine || mid == CaptainMachine {
					continue
				}
				if _, have := twin.Machines[mid]; !have {
					c.Violate("restart:shadow:stale:"+ops[i].kind, "the crew rebuilt from the store before op %d: after op %d (%s) machine %s is gone from it but still in the store continued with its reports%s", b, i, ops[i].kind, mid, history())
					return
				}
			}
			got := observe(twin, r)
			want := trace[i]
			if ref.Canon(got.machines) != ref.Canon(want.machines) {
				c.Violate("restart:state", "the crew rebuilt from the store before op %d differs from the original after op %d (%s):\n  rebuilt  %s\n  original %s%s",
					b, i, ops[i].kind, ref.Canon(got.machines), ref.Canon(want.machines), history())
				return
			}
			if vfJoin(got.batches) != vfJoin(want.batches) {
				c.Violate("restart:emitted", "the crew rebuilt from the store before op %d emits differently at op %d:\n  rebuilt  %v\n  original %v%s", b, i, got.batches, want.batches, history())
				return
			}
		}
	}
	c.MixHash(shape)
	c.Path = shape + fmt.Sprint(len(mids), g.n)
	c.Sample = map[string]interface{}{"ops": history(), "restart_points": len(ops) - 1}
}
