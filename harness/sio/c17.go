//go:build verif_sim

package sio

// C17 (sio half): the crew loop, the timers machine and the per-timer
// goroutines under the serial scheduler with the simulated clock.  Requests are
// messages to the "timers" machine, submitted by requester tasks and - from
// inside the handling of a firing message - emitted by the handler machine.
// A consumer task renders every Result as JSON, as a real coupling does.

import (
	"context"
	"encoding/json"
	"fmt"
	"sort"
	"strings"
	"testing"
	"time"

	"verif/ref"
	"verif/sim"
	"verif/tmodel"
)

func init() { vfRegistry["C17/sio-timers"] = runC17Sio }

type vfTmOp struct {
	kind     string // make | cancel | sleep
	id       string
	d        time.Duration
	payload  string
	remake   *vfTmOp // the handler of this timer's message re-creates a timer under the same id
	debounce bool    // issued as cancel + make of the same id by one machine within one processed message
}

var vfDelays = []time.Duration{time.Millisecond, 5 * time.Millisecond, 20 * time.Millisecond, time.Second, time.Hour, 0, -time.Millisecond} // (also due at once, and overdue)
var vfSleeps = []time.Duration{time.Millisecond, 4 * time.Millisecond, 20 * time.Millisecond, 500 * time.Millisecond, time.Second}

func vfMakeMsg(op *vfTmOp) map[string]interface{} {
	payload := map[string]interface{}{"to": "h", "id": op.payload}
	if op.remake != nil {
		payload["emit"] = map[string]interface{}{"h": []interface{}{vfMakeMsg(op.remake)}}
	}
	return map[string]interface{}{"to": "timers", "makeTimer": map[string]interface{}{"id": op.id, "in": op.d.String(), "msg": payload}}
}

func runC17Sio(c *sim.Ctx, t *testing.T) {
	nreq := 1 + c.Intn(2, "nreq")
	npay := 0
	newPayload := func() string { npay++; return fmt.Sprintf("p%d", npay) }
	plans := make([][]*vfTmOp, nreq)
	byPayload := map[string]*vfTmOp{}
	for r := range plans {
		ids := []string{fmt.Sprintf("a%d", r), fmt.Sprintf("b%d", r)}
		pending := map[string]bool{} // ids this requester may not re-make yet
		remade := map[string]bool{}
		nops := 1 + c.Intn(5, "nops")
		for i := 0; i < nops; i++ {
			id := ids[c.Intn(len(ids), "id")]
			switch k := c.Intn(8, "op"); {
			case k <= 2 && !pending[id] && !remade[id]:
				op := &vfTmOp{kind: "make", id: id, d: vfDelays[c.Intn(len(vfDelays), "d")], payload: newPayload()}
				byPayload[op.payload] = op
				if c.Chance(1, 3, "remake") {
					op.remake = &vfTmOp{kind: "make", id: id, d: vfDelays[c.Intn(3, "rd")], payload: newPayload()}
					byPayload[op.remake.payload] = op.remake
					// the handler will re-create a timer under this id at some point: the
					// requester must not make one itself ("make while pending" is not asserted for sio)
					remade[id] = true
				}
				pending[id] = true
				plans[r] = append(plans[r], op)
				if op.remake == nil && op.d < time.Hour && c.Chance(1, 4, "debounce-when-due") { // (not the hour-long ones: the run ends after three hours)
					// a watchdog that is fed just as it runs out: the requester sleeps for the
					// timer's own delay and then has the handler cancel and re-make it
					db := &vfTmOp{kind: "debounce", id: id, d: vfDelays[c.Intn(len(vfDelays), "d")], payload: newPayload(), debounce: true}
					byPayload[db.payload] = db
					plans[r] = append(plans[r], &vfTmOp{kind: "sleep", d: op.d}, db)
				}
			case k == 5 && !remade[id]:
				// a "debounce": one message makes the handler machine emit a cancel and then a
				// make for the same id, both processed within that one message
				op := &vfTmOp{kind: "debounce", id: id, d: vfDelays[c.Intn(len(vfDelays), "d")], payload: newPayload(), debounce: true}
				byPayload[op.payload] = op
				pending[id] = true
				plans[r] = append(plans[r], op)
			case k == 7:
				// an operator's crew update that names the timers machine without giving it a
				// state: nothing about the timers may change
				plans[r] = append(plans[r], &vfTmOp{kind: "refresh"})
			case k <= 4:
				plans[r] = append(plans[r], &vfTmOp{kind: "cancel", id: id})
				if c.Chance(1, 2, "settle") {
					// let the cancellation be processed before the id is reused
				}
				pending[id] = false
			default:
				plans[r] = append(plans[r], &vfTmOp{kind: "sleep", d: vfSleeps[c.Intn(len(vfSleeps), "sl")]})
			}
		}
	}
	masks := []int{0, 0, sim.MaskEntry, sim.MaskUnlock, sim.MaskUnlock | sim.MaskGo, sim.MaskEntry | sim.MaskGo}
	mask := masks[c.Intn(len(masks), "mask")]
	stallW := c.Intn(3, "stallw")

	var lg *sim.Log
	var t0 time.Time
	leak := sim.Bubble(c, t, func(s *sim.Sched) {
		s.Horizon = 3 * time.Hour
		s.MaxSteps = 6000
		s.Stalls = vfSleeps
		s.StallW = stallW
		s.YieldMask = mask
		lg = sim.NewLog()
		t0 = time.Now()
		ctx, cancel := context.WithCancel(context.Background())
		crew, cp, err := vfNewCrew(ctx)
		if err != nil {
			c.Infra = "NewCrew: " + err.Error()
			cancel()
			return
		}
		src := vfSpecSource()
		src.Inline = vfRecorderSpecV(true, 1)
		if err := crew.SetMachine(ctx, "h", src, nil); err != nil {
			c.Infra = "SetMachine: " + err.Error()
			cancel()
			return
		}
		s.Go("loop", func(tk *sim.Task) { crew.Loop(ctx) })
		s.Go("consumer", func(tk *sim.Task) {
			nres := 0
			for {
				sim.Yield("h#consume")
				r, ok := sim.RecvOrDone("h#consume-select", ctx.Done(), (<-chan *Result)(cp.out))
				if !ok {
					return
				}
				{
					nres++
					lg.Add(sim.Ev{Kind: "recv", N: int64(nres)}) // the loop parks right after its send
					sim.Yield("h#consumed")                      // the sender woke too: let the scheduler order us
					// what any coupling does with a result: render it
					js, err := json.Marshal(r)
					lg.Add(sim.Ev{Kind: "result", N: int64(nres), Val: string(js), Err: vfErr(err)})
				}
			}
		})

		for r := range plans {
			plan := plans[r]
			r := r
			s.Go(fmt.Sprintf("req%d", r), func(tk *sim.Task) {
				for i, op := range plan {
					if op.kind == "sleep" {
						sim.Sleep(op.d)
						continue
					}
					rid := fmt.Sprintf("r%d.%d", r, i)
					var msg map[string]interface{}
					if op.kind == "make" {
						msg = vfMakeMsg(op)
						lg.Add(sim.Ev{Kind: "make.inv", Id: op.id, Val: op.payload, N: int64(op.d), Err: rid})
					} else if op.kind == "refresh" {
						msg = map[string]interface{}{"to": "captain", "update": map[string]interface{}{"timers": map[string]interface{}{}}}
						lg.Add(sim.Ev{Kind: "refresh.inv", Err: rid})
					} else if op.kind == "debounce" {
						mk := vfMakeMsg(&vfTmOp{id: op.id, d: op.d, payload: op.payload})
						msg = map[string]interface{}{"to": "h", "id": "db-" + op.payload, "emit": map[string]interface{}{"h": []interface{}{
							map[string]interface{}{"to": "timers", "cancelTimer": op.id}, mk}}}
						lg.Add(sim.Ev{Kind: "debounce.inv", Id: op.id, Val: op.payload, N: int64(op.d), Err: rid})
					} else {
						msg = map[string]interface{}{"to": "timers", "cancelTimer": op.id}
						lg.Add(sim.Ev{Kind: "cancel.inv", Id: op.id, Err: rid})
					}
					m := vfJSONCopy(msg)
					sim.Yield("h#send")
					if !sim.SendOrDone("h#send-select", ctx.Done(), (chan<- interface{})(cp.in), interface{}(func(*Crew) interface{} {
						lg.Add(sim.Ev{Kind: "proc", Err: rid})
						return m
					})) {
						return
					}
					sim.Yield("h#sent") // the receiver woke too: let the scheduler order us

				}
			})
		}
		s.Run()
		cancel()
		s.Drain(600)
	})
	if c.Infra != "" {
		return
	}
	c.SimTime = c.Sched.SimTime
	raw := lg.Events()
	for _, e := range raw {
		v := e.Val
		if len(v) > 300 {
			v = v[:300] + "..."
		}
		c.MixHash(fmt.Sprintf("%d %s %s %s %s %d %v", e.Seq, e.Task, e.Kind, e.Id, e.Err, e.N, e.At))
		c.Logf("ev %d t=%v %-8s %-10s id=%s req=%s %s", e.Seq, e.At, e.Task, e.Kind, e.Id, e.Err, v)
	}
	if lg.Overflowed() {
		c.Infra = "log overflow"
		return
	}
	if leak != "" {
		c.Violate("timer:sio:leak", "goroutines left blocked after context cancellation: %s", leak)
	}
	if len(c.Sched.Deadlock) > 0 {
		c.Violate("deadlock:"+vfSiteFuncs(c.Sched.Deadlock), "tasks blocked on locks forever: %v", c.Sched.Deadlock)
	}

	// ---- turn the raw log into the make/cancel/fire/observe history
	type reqInfo struct {
		kind    string
		id      string
		payload string
		d       time.Duration
		inv     sim.Ev
	}
	reqs := map[string]*reqInfo{}
	var hist []sim.Ev
	curReq := ""
	reqOf := map[int64]string{}
	recvSeq := map[int64]int{}
	prevResult := -1
	seenLog := 0
	fired := map[string]bool{}
	for _, e := range raw {
		switch e.Kind {
		case "make.inv":
			reqs[e.Err] = &reqInfo{"make", e.Id, e.Val, time.Duration(e.N), e}
		case "cancel.inv":
			reqs[e.Err] = &reqInfo{"cancel", e.Id, "", 0, e}
		case "debounce.inv":
			reqs[e.Err] = &reqInfo{"debounce", e.Id, e.Val, time.Duration(e.N), e}
		case "refresh.inv":
			reqs[e.Err] = &reqInfo{"refresh", "", "", 0, e}
		case "proc":
			curReq = e.Err
		case "recv":
			// the loop handles one message at a time: this result belongs to the
			// request unwrapped since the previous one, or to a timer's message
			reqOf[e.N] = curReq
			recvSeq[e.N] = e.Seq
			curReq = ""
		case "result":
			curReq := reqOf[e.N]
			retSeq := recvSeq[e.N]
			if e.Err != "" {
				c.Violate("timer:sio:result-unrenderable", "a Result could not be rendered as JSON: %s", e.Err)
				continue
			}
			var r struct {
				Changed map[string]struct {
					State *struct {
						Bs map[string]interface{} `json:"bs"`
					}
				}
				Emitted [][]map[string]interface{}
			}
			if err := json.Unmarshal([]byte(e.Val), &r); err != nil {
				c.Infra = "result JSON: " + err.Error()
				return
			}
			startSeq := prevResult + 1
			// the request this result answers
			if q := reqs[curReq]; curReq != "" && q != nil {
				inv := q.inv
				if q.kind == "refresh" {
					c.Count("crew_updates_naming_the_timers_machine")
				} else if q.kind == "make" {
					hist = append(hist, sim.Ev{Seq: inv.Seq, Task: curReq, Kind: "add.inv", Id: q.id, Val: q.payload, N: int64(q.d), At: inv.At})
					hist = append(hist, sim.Ev{Seq: retSeq, Task: curReq, Kind: "add.ret", Id: q.id, Val: q.payload, At: e.At})
				} else if q.kind == "debounce" {
					// the cancel is processed strictly before the make, both before this result
					hist = append(hist, sim.Ev{Seq: inv.Seq, Task: curReq + "c", Kind: "rem.inv", Id: q.id, At: inv.At})
					hist = append(hist, sim.Ev{Seq: retSeq - 1, Task: curReq + "c", Kind: "rem.ret", Id: q.id, Err: "?", At: e.At})
					hist = append(hist, sim.Ev{Seq: retSeq, Task: curReq + "m", Kind: "add.inv", Id: q.id, Val: q.payload, N: int64(q.d), At: inv.At})
					hist = append(hist, sim.Ev{Seq: retSeq, Task: curReq + "m", Kind: "add.ret", Id: q.id, Val: q.payload, At: e.At})
					c.Count("debounces")
				} else {
					hist = append(hist, sim.Ev{Seq: inv.Seq, Task: curReq, Kind: "rem.inv", Id: q.id, At: inv.At})
					hist = append(hist, sim.Ev{Seq: retSeq, Task: curReq, Kind: "rem.ret", Id: q.id, Err: "?", At: e.At})
				}
				delete(reqs, curReq)
			}
			// firings: new entries in the handler machine's log
			firedAt := map[string]time.Duration{}
			if h, ok := r.Changed["h"]; ok && h.State != nil {
				lgEntries, _ := h.State.Bs["log"].([]interface{})
				for _, x := range lgEntries[vfMin(seenLog, len(lgEntries)):] {
					em, _ := x.(map[string]interface{})
					p := fmt.Sprint(em["id"])
					if byPayload[p] == nil {
						continue // not a timer's message (e.g. a debounce request to the handler)
					}
					at, _ := em["at"].(float64)
					fireAt := time.Duration(int64(at)-t0.UnixMilli()) * time.Millisecond
					if fired[p] {
						c.Violate("timer:sio:fire:twice", "the message of timer payload %s was delivered twice", p)
					}
					fired[p] = true
					firedAt[p] = fireAt
					hist = append(hist, sim.Ev{Seq: retSeq, Task: "fire-" + p, Kind: "fire", Val: p, At: fireAt})
				}
				seenLog = len(lgEntries)
			}
			// requests issued by the handler of a firing message (emitted, processed in the same call)
			for _, batch := range r.Emitted {
				for _, m := range batch {
					if mk, ok := m["makeTimer"].(map[string]interface{}); ok {
						payload := fmt.Sprint(mk["msg"].(map[string]interface{})["id"])
						op := byPayload[payload]
						if op == nil || op.debounce {
							continue
						}
						task := "handler-" + payload
						// the handler ran when its own message fired: that is when this request was issued
						invAt := e.At
						for pp, pop := range byPayload {
							if pop.remake == op {
								if at, ok := firedAt[pp]; ok {
									invAt = at
								}
							}
						}
						hist = append(hist, sim.Ev{Seq: startSeq, Task: task, Kind: "add.inv", Id: op.id, Val: payload, N: int64(op.d), At: invAt})
						hist = append(hist, sim.Ev{Seq: retSeq, Task: task, Kind: "add.ret", Id: op.id, Val: payload, At: e.At})
						c.Count("handler_remakes")
					}
				}
			}
			// the reported pending set
			if tm, ok := r.Changed["timers"]; ok && tm.State != nil {
				var ids []string
				if mp, ok := tm.State.Bs["timers"].(map[string]interface{}); ok {
					for id := range mp {
						ids = append(ids, id)
					}
				}
				sort.Strings(ids)
				hist = append(hist, sim.Ev{Seq: startSeq, Task: fmt.Sprintf("obs-%d", e.Seq), Kind: "obs.inv", At: e.At})
				hist = append(hist, sim.Ev{Seq: e.Seq, Task: fmt.Sprintf("obs-%d", e.Seq), Kind: "obs.ret", Val: strings.Join(ids, ","), At: e.At})
			}
			prevResult = retSeq
		}
	}
	// the handler's invocation time for a re-make is the firing time of its parent
	sort.SliceStable(hist, func(i, j int) bool { return hist[i].Seq < hist[j].Seq })
	complete := !c.Sched.Exhausted && len(reqs) == 0
	tmodel.CheckHistory(c, "sio", hist, complete)
	nf := 0
	for range fired {
		nf++
	}
	c.Add("fired", nf)
	c.Add("steps_with_choice", c.Sched.Switches)
	c.Add("stalls", c.Sched.Stalled)
	shape := ""
	for _, e := range hist {
		shape += e.Kind[:1] + e.Id + "."
	}
	c.Path = fmt.Sprintf("%s|%016x", shape, c.Sched.Hash)
	c.Trivial = nf == 0 || c.Sched.Switches == 0
	c.Sample = map[string]interface{}{"plans": vfPlanString(plans), "history_events": len(hist)}
	_ = ref.Canon
}

func vfPlanString(plans [][]*vfTmOp) string {
	s := ""
	for r, p := range plans {
		s += fmt.Sprintf("req%d:", r)
		for _, op := range p {
			s += fmt.Sprintf(" %s(%s,%v,%s", op.kind, op.id, op.d, op.payload)
			if op.remake != nil {
				s += fmt.Sprintf(" handler-remake(%v,%s)", op.remake.d, op.remake.payload)
			}
			s += ")"
		}
		s += "; "
	}
	return s
}

func vfErr(err error) string {
	if err == nil {
		return ""
	}
	return err.Error()
}

func vfMin(a, b int) int {
	if a < b {
		return a
	}
	return b
}

func vfSiteFuncs(sites []string) string {
	seen := map[string]bool{}
	var out []string
	for _, s := range sites {
		if i := strings.Index(s, "@"); i >= 0 {
			s = s[i+1:]
		}
		if i := strings.Index(s, "#"); i >= 0 {
			s = s[:i]
		}
		if !seen[s] {
			seen[s] = true
			out = append(out, s)
		}
	}
	sort.Strings(out)
	return strings.Join(out, ",")
}
