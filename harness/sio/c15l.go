//go:build verif_sim

package sio

// C15 through the crew's own Loop: requests arrive pipelined on the input
// channel, timers fire from their own goroutines while the crew is busy, and a
// consumer task - a slow store - folds every Result some scheduler steps after
// it received it, while the loop is already at work on the next message.  When
// everything has come to rest the folded store must equal the live crew.

import (
	"context"
	"encoding/json"
	"fmt"
	"sort"
	"testing"
	"time"

	"github.com/Comcast/sheens/core"

	"verif/sim"
)

func init() { vfRegistry["C15/sio-loop"] = runC15Loop }

type vfLoopOp struct {
	kind string // make | cancel | msg | flip | sleep
	id   string
	d    time.Duration
	n    int
}

func vfStateCanon(s *core.State) string {
	if s == nil {
		return "start/{}"
	}
	b, err := json.Marshal(s.Bs)
	if err != nil {
		return s.NodeName + "/unrenderable:" + err.Error()
	}
	var x interface{}
	json.Unmarshal(b, &x)
	if x == nil {
		x = map[string]interface{}{}
	}
	b, _ = json.Marshal(x)
	node := s.NodeName
	if node == "" {
		node = "start"
	}
	return node + "/" + string(b)
}

// vfPendingCanon renders the pending timers held in a timers machine state.
func vfPendingCanon(s *core.State) string {
	if s == nil || s.Bs == nil || s.Bs["timers"] == nil {
		return "{}"
	}
	b, err := json.Marshal(s.Bs["timers"])
	if err != nil {
		return "unrenderable:" + err.Error()
	}
	var x interface{}
	json.Unmarshal(b, &x)
	b, _ = json.Marshal(x)
	return string(b)
}

func runC15Loop(c *sim.Ctx, t *testing.T) {
	nreq := 1 + c.Intn(3, "nreq")
	plans := make([][]vfLoopOp, nreq)
	for r := range plans {
		ids := []string{fmt.Sprintf("a%d", r), "shared"}
		nops := 1 + c.Intn(5, "nops")
		for i := 0; i < nops; i++ {
			switch k := c.Intn(9, "op"); {
			case k == 8:
				// an operator replaces the state of the timers machine: from now on exactly the
				// timers of that state are pending
				plans[r] = append(plans[r], vfLoopOp{kind: "timerstate", id: fmt.Sprintf("op%d", r)})
			case k <= 2:
				plans[r] = append(plans[r], vfLoopOp{kind: "make", id: ids[c.Intn(2, "id")], d: vfDelays[c.Intn(len(vfDelays), "d")], n: c.Intn(4, "unheard")})
			case k == 3:
				plans[r] = append(plans[r], vfLoopOp{kind: "cancel", id: ids[c.Intn(2, "id")]})
			case k == 4:
				plans[r] = append(plans[r], vfLoopOp{kind: "flip"})
			case k <= 6:
				plans[r] = append(plans[r], vfLoopOp{kind: "msg"})
			default:
				plans[r] = append(plans[r], vfLoopOp{kind: "sleep", d: vfSleeps[c.Intn(len(vfSleeps), "sl")]})
			}
		}
	}
	holds := make([]int, 4)
	for i := range holds {
		holds[i] = c.Intn(7, "hold")
	}
	stallW := c.Intn(3, "stallw")

	store := map[string]string{}
	live := map[string]string{}
	nres, nfolded := 0, 0
	reqDone := make([]bool, nreq)
	sim.Bubble(c, t, func(s *sim.Sched) {
		s.Horizon = 10 * time.Minute
		s.MaxSteps = 8000
		s.Stalls = vfSleeps
		s.StallW = stallW
		ctx, cancel := context.WithCancel(context.Background())
		crew, cp, err := vfNewCrew(ctx)
		if err != nil {
			c.Infra = "NewCrew: " + err.Error()
			cancel()
			return
		}
		src := vfSpecSource()
		src.Inline = vfRecorderSpecV(true, 1)
		if err := crew.SetMachine(ctx, "h", src, nil); err != nil {
			c.Infra = "SetMachine: " + err.Error()
			cancel()
			return
		}
		fsrc := vfSpecSource()
		fsrc.Inline = vfFlipperSpec()
		if err := crew.SetMachine(ctx, "f", fsrc, nil); err != nil {
			c.Infra = "SetMachine: " + err.Error()
			cancel()
			return
		}
		s.Go("loop", func(tk *sim.Task) { crew.Loop(ctx) })
		s.Go("store", func(tk *sim.Task) {
			for {
				sim.Yield("h#consume")
				r, ok := sim.RecvOrDone("h#consume-select", ctx.Done(), (<-chan *Result)(cp.out))
				if !ok {
					return
				}
				{
					nres++
					sim.Yield("h#consumed")
					// a slow store: the write happens some steps after the result arrived
					for k := holds[nres%len(holds)]; k > 0; k-- {
						sim.Yield("h#store-slow")
					}
					mids := make([]string, 0, len(r.Changed))
					for mid := range r.Changed {
						mids = append(mids, mid)
					}
					sort.Strings(mids)
					for _, mid := range mids {
						ch := r.Changed[mid]
						switch {
						case ch == nil:
						case ch.Deleted:
							delete(store, mid)
						case ch.State != nil && mid == TimersMachine:
							// what a restart resumes from the timers machine is its pending timers
							store[mid] = vfPendingCanon(ch.State)
						case ch.State != nil:
							store[mid] = vfStateCanon(ch.State)
						default:
							if _, have := store[mid]; !have {
								store[mid] = vfStateCanon(nil)
							}
						}
					}
					nfolded++
				}
			}
		})
		for r := range plans {
			plan, r := plans[r], r
			s.Go(fmt.Sprintf("req%d", r), func(tk *sim.Task) {
				defer func() { reqDone[r] = true }()
				nmsg := 0
				for _, op := range plan {
					var msg map[string]interface{}
					switch op.kind {
					case "sleep":
						sim.Sleep(op.d)
						continue
					case "make":
						nmsg++
						to := "h"
						if op.n == 1 {
							to = "nobody" // a timer whose message nobody hears: processing it moves no machine
						}
						msg = map[string]interface{}{"to": "timers", "makeTimer": map[string]interface{}{"id": op.id, "in": op.d.String(),
							"msg": map[string]interface{}{"to": to, "id": fmt.Sprintf("t%d.%d", r, nmsg)}}}
					case "timerstate":
						at := time.Now().Add(time.Hour).UTC().Format(time.RFC3339Nano)
						msg = map[string]interface{}{"to": "captain", "update": map[string]interface{}{"timers": map[string]interface{}{"state": map[string]interface{}{
							"node": "start", "bs": map[string]interface{}{"timers": map[string]interface{}{
								op.id: map[string]interface{}{"Id": op.id, "Msg": map[string]interface{}{"to": "nobody", "id": op.id}, "At": at}}}}}}}
					case "cancel":
						msg = map[string]interface{}{"to": "timers", "cancelTimer": op.id}
					case "flip":
						msg = map[string]interface{}{"to": "f", "flip": true}
					default:
						nmsg++
						msg = map[string]interface{}{"to": "h", "id": fmt.Sprintf("m%d.%d", r, nmsg)}
					}
					sim.Yield("h#send")
					if !sim.SendOrDone("h#send-select", ctx.Done(), (chan<- interface{})(cp.in), vfJSONCopy(msg)) {
						return
					}
					sim.Yield("h#sent")
				}
			})
		}
		s.Run()
		cancel()
		s.Drain(800)
		if !c.Sched.Exhausted && len(c.Sched.Stuck) == 0 {
			for mid, m := range crew.Machines {
				switch mid {
				case CaptainMachine:
				case TimersMachine:
					live[mid] = vfPendingCanon(crew.timers.State())
				default:
					live[mid] = vfStateCanon(m.State)
				}
			}
		}
	})
	if c.Infra != "" {
		return
	}
	c.SimTime = c.Sched.SimTime
	allDone := true
	for _, d := range reqDone {
		allDone = allDone && d
	}
	if c.Sched.Exhausted || len(c.Sched.Stuck) > 0 || !allDone || nfolded < nres {
		c.Count("budget_exhausted_unfinished")
		c.Trivial = true
		return
	}
	if nres == 0 {
		c.Trivial = true
		return
	}
	desc := fmt.Sprintf("plans %v, store delays %v", plans, holds)
	mids := map[string]bool{}
	for mid := range live {
		mids[mid] = true
	}
	for mid := range store {
		if mid != CaptainMachine {
			mids[mid] = true
		}
	}
	for mid := range mids {
		l, haveL := live[mid]
		st, haveS := store[mid]
		switch {
		case haveL && !haveS:
			if mid == TimersMachine && l == vfPendingCanon(nil) {
				continue // never reported because there never was a timer
			}
			c.Violate("store:loop:missing", "%s: after %d results machine %s is %s in the live crew and absent from the folded store", desc, nres, mid, l)
			return
		case !haveL && haveS:
			c.Violate("store:loop:extra", "%s: after %d results the folded store still has machine %s", desc, nres, mid)
			return
		case l != st:
			c.Violate("store:loop:"+mid, "%s: after %d results machine %s is %s in the live crew but %s in the store folded from the reported changes", desc, nres, mid, l, st)
			return
		}
	}
	c.Add("results_folded", nfolded)
	c.Add("steps_with_choice", c.Sched.Switches)
	c.Add("stalls", c.Sched.Stalled)
	c.Path = fmt.Sprintf("%v|%016x", plans, c.Sched.Hash)
	c.Trivial = nres < 2 || c.Sched.Switches == 0
	c.Sample = map[string]interface{}{"plans": fmt.Sprint(plans), "results": nres}
}
