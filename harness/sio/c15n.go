//go:build verif_sim

package sio

// C15 with a fault in the reporting path itself: one machine computes a state that
// cannot be encoded, so the crew fails to render its changes for that message.
// Whatever it does then, the reports it does deliver must add up: after every
// message it processes successfully, the store folded from the reports equals
// the live crew - also for the machines that changed in the failed round.

import (
	"context"
	"fmt"
	"testing"

	"github.com/Comcast/sheens/crew"

	"verif/ref"
	"verif/sim"
)

func init() { vfRegistry["C15/unencodable"] = runC15Unencodable }

func runC15Unencodable(c *sim.Ctx, t *testing.T) {
	sim.Install(c)
	defer sim.Uninstall()
	ctx := context.Background()
	nm := 2 + c.Intn(3, "nmachines")
	var mids []string
	for i := 0; i < nm; i++ {
		mids = append(mids, fmt.Sprintf("r%d", i))
	}
	live, _, err := vfNewCrew(ctx)
	if err != nil {
		c.Infra = "NewCrew: " + err.Error()
		return
	}
	for _, mid := range mids {
		if err := live.SetMachine(ctx, mid, vfSpecSource(), nil); err != nil {
			c.Infra = "SetMachine: " + err.Error()
			return
		}
	}
	type op struct {
		kind string
		msg  map[string]interface{}
	}
	nops := 3 + c.Intn(6, "nops")
	bad := mids[c.Intn(nm, "badmid")]
	nanAt := c.Intn(nops-1, "nanat")
	var ops []op
	for i := 0; i < nops; i++ {
		id := fmt.Sprintf("m%d", i)
		switch {
		case i == nanAt:
			// everybody records this one; one machine's new state cannot be encoded
			ops = append(ops, op{"nan", map[string]interface{}{"id": id, "nan": map[string]interface{}{bad: true}}})
		case i > nanAt && c.Chance(1, 3, "heal"):
			// the host repairs the machine by giving it a state
			ops = append(ops, op{"heal", map[string]interface{}{"id": id, "to": "captain", "update": map[string]interface{}{bad: map[string]interface{}{
				"state": map[string]interface{}{"node": "start", "bs": map[string]interface{}{"log": []interface{}{map[string]interface{}{"id": "healed"}}}}}}}})
		case c.Bool("broadcast"):
			ops = append(ops, op{"all", map[string]interface{}{"id": id}})
		default:
			ops = append(ops, op{"one", map[string]interface{}{"id": id, "to": mids[c.Intn(nm, "tomid")]}})
		}
	}
	history := ""
	for i, o := range ops {
		history += fmt.Sprintf("\n  %d %s %s", i, o.kind, ref.Canon(o.msg))
	}
	shadow := map[string]*crew.Machine{}
	shape := ""
	failed := 0
	for i, o := range ops {
		var r *Result
		var perr error
		if c.Guard("ProcessMsg "+ref.Canon(o.msg), func() { r, perr = live.ProcessMsg(ctx, vfJSONCopy(o.msg)) }) {
			return
		}
		if perr != nil || r == nil {
			// a failure to report is not the subject here; what is reported later is
			failed++
			shape += "!"
			c.Count("messages_whose_processing_failed")
			continue
		}
		shape += o.kind[:1]
		vfFold(shadow, r)
		c.Count("messages_processed")
		for _, mid := range vfOrdinary(live) {
			m := live.Machines[mid]
			sm, have := shadow[mid]
			if !have {
				c.Violate("shadow:unencodable:missing", "after op %d (%s), processed without error, machine %s exists in the crew but no change ever reported it (%d earlier messages failed)%s", i, o.kind, mid, failed, history)
				return
			}
			if vfMachineCanon(sm) != vfMachineCanon(m) {
				c.Violate("shadow:unencodable:state", "after op %d (%s), processed without error, machine %s is at %s but the reported changes give %s (%d earlier messages failed to report)%s",
					i, o.kind, mid, vfMachineCanon(m), vfMachineCanon(sm), failed, history)
				return
			}
		}
	}
	c.MixHash(shape)
	c.Path = fmt.Sprintf("%d|%s|%s", nm, shape, history)
	c.Trivial = failed == 0
	c.Sample = map[string]interface{}{"machines": mids, "unencodable": bad, "ops": history}
}
