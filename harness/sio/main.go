//go:build verif_sim

package sio

import (
	"context"
	"encoding/json"
	"fmt"
	"io"
	"log"
	"sort"
	"strings"
	"testing"

	"github.com/Comcast/sheens/core"
	"github.com/Comcast/sheens/crew"

	"verif/ref"
	"verif/sim"
)

var vfRegistry = sim.Registry{}

func TestSim(t *testing.T) {
	log.SetOutput(io.Discard)
	sim.Main(t, vfRegistry)
}

// vfCouplings gives a crew its in/out channels (the harness is the coupling).
type vfCouplings struct {
	in  chan interface{}
	out chan *Result
}

func (v *vfCouplings) Start(context.Context) error { return nil }
func (v *vfCouplings) Stop(context.Context) error  { return nil }
func (v *vfCouplings) IO(context.Context) (chan interface{}, chan *Result, error) {
	return v.in, v.out, nil
}
func (v *vfCouplings) Read(context.Context) (map[string]*crew.Machine, error) { return nil, nil }

func vfNewCrew(ctx context.Context) (*Crew, *vfCouplings, error) {
	cp := &vfCouplings{in: make(chan interface{}), out: make(chan *Result)}
	c, err := NewCrew(ctx, &CrewConf{Id: "sim", Ctl: &core.Control{Limit: 50}}, cp)
	return c, cp, err
}

// The recorder machine: appends the id of every message it is presented to its
// "log" binding, and emits what the message tells it (by machine id) to emit.
// A message can also tell a machine to fail after k emissions.
const vfRecorderJS = `
var bs = _.bindings;
var m = bs["?m"];
var mid = _.props.mid;
var log = bs.log || [];
if (m && typeof m === "object") {
  log.push(LOGENTRY);
  // a receiver may do what it likes with its copy of the message - also before it fails
  if (m.items && m.items.length && m.items[0] && typeof m.items[0] === "object") { m.items[0].n = 99; m.items[0].seenBy = mid; }
  if (m.nan && m.nan[mid]) { return {"log": log, "bad": 0/0}; }
  var emits = (m.emit && m.emit[mid]) || [];
  var failAfter = (m.fail && m.fail[mid] !== undefined) ? m.fail[mid] : -1;
  for (var i = 0; i < emits.length; i++) {
    if (i == failAfter) { throw new Error("told to fail"); }
    _.out(emits[i]);
  }
  var fw = m.fwd && m.fwd[mid];
  if (fw) {
    // forward what I received: one object, re-addressed and emitted once per target
    for (var j = 0; j < fw.to.length; j++) { fw.msg.to = fw.to[j]; _.out(fw.msg); }
  }
  if (failAfter >= emits.length) { throw new Error("told to fail"); }
  if (m.wreck && m.wreck[mid]) { return {"log": log, "wreck": true}; }
}
return {"log": log};
`

// vfGuardJS: the guard of the recorder's listening branches.  "skip" makes a machine ignore a
// message; "boom" makes the guard itself fail (the message is used up, the machine goes to
// its error node and listens on).
const vfGuardJS = `var m = _.bindings["?m"]; var mid = _.props.mid;
if (m && m.boom && m.boom[mid]) { throw new Error("told to fail in the guard"); }
return (m && m.skip && m.skip[mid]) ? null : {"?m": m, "log": _.bindings.log || []};`

// vfRecorderSpec: timed recorders also note the (simulated) time of each message.
func vfRecorderSpec() *core.Spec { return vfRecorderSpecV(false, 1) }

func vfRecorderSpecV(timed bool, version int) *core.Spec {
	entry := fmt.Sprintf(`{"id": m.id, "v": %d}`, version)
	if version == 1 {
		entry = `{"id": m.id}`
	}
	if timed {
		entry = `{"id": m.id, "at": Date.now()}`
	}
	src := strings.Replace(vfRecorderJS, "LOGENTRY", entry, 1)
	return &core.Spec{
		Name:                "recorder",
		ActionErrorBranches: true,
		Nodes: map[string]*core.Node{
			// the whole message is bound by a bare variable; a guard lets a message say which
			// machines shall ignore it (it is consumed, nothing is recorded, nothing changes)
			"start": {Branches: &core.Branches{Type: "message", Branches: []*core.Branch{{Pattern: "?m", Target: "rec",
				GuardSource: &core.ActionSource{Interpreter: "ecmascript", Source: vfGuardJS}}}}},
			// a guard that fails takes the machine here; it listens just as it did before
			"error": {Branches: &core.Branches{Type: "message", Branches: []*core.Branch{{Pattern: "?m", Target: "rec",
				GuardSource: &core.ActionSource{Interpreter: "ecmascript", Source: strings.Replace(vfGuardJS, "m.boom[mid]", "false", 1)}}}}},
			"rec": {
				ActionSource: &core.ActionSource{Interpreter: "ecmascript", Source: src},
				Branches: &core.Branches{Type: "bindings", Branches: []*core.Branch{
					{Pattern: map[string]interface{}{"actionError": "?e"}, Target: "cleanup"},
					{Pattern: map[string]interface{}{"wreck": true}, Target: "wreck"},
					{Target: "start"},
				}},
			},
			// told to wreck itself: after the recording action has completed (and emitted), the
			// next step's action fails with no branch to follow - the machine ends at the error node
			"wreck": {ActionSource: &core.ActionSource{Interpreter: "ecmascript", Source: `throw new Error("wrecked");`}},
			"cleanup": {
				ActionSource: &core.ActionSource{Interpreter: "ecmascript", Source: `return {"log": _.bindings.log || [], "failed": (_.bindings.failed || 0) + 1};`},
				Branches:     &core.Branches{Type: "bindings", Branches: []*core.Branch{{Target: "start"}}},
			},
		},
	}
}

// The echo machine: no state at all.  Whatever it is presented, it emits one message (to nobody)
// that names what it saw, and is back at its start node with the bindings it had: none.  A crew
// reports no change for it - its emissions are all there is to report.
const vfEchoMid = "echo"

func vfEchoSpec() *core.Spec {
	return &core.Spec{
		Name: "echo",
		Nodes: map[string]*core.Node{
			"start": {Branches: &core.Branches{Type: "message", Branches: []*core.Branch{{Pattern: "?m", Target: "say"}}}},
			"say": {
				ActionSource: &core.ActionSource{Interpreter: "ecmascript", Source: `var m = _.bindings["?m"]; _.out({"id": "echo-" + ((m && typeof m === "object") ? m.id : "?"), "to": "nobody"}); return {};`},
				Branches:     &core.Branches{Type: "bindings", Branches: []*core.Branch{{Target: "start"}}},
			},
		},
	}
}

func vfEchoSource() *crew.SpecSource { return &crew.SpecSource{Inline: vfEchoSpec()} }

func vfSpecSource() *crew.SpecSource { return &crew.SpecSource{Inline: vfRecorderSpec()} }

// vfLogIds returns the message ids a machine has recorded.
func vfLogIds(m *crew.Machine) []string {
	var out []string
	if m == nil || m.State == nil {
		return out
	}
	lg, _ := m.State.Bs["log"].([]interface{})
	for _, e := range lg {
		if em, ok := e.(map[string]interface{}); ok {
			out = append(out, fmt.Sprint(em["id"]))
		}
	}
	return out
}

// ---- message generator: routed and unrouted messages with a hop budget -------

type vfGen struct {
	depth int
	c     *sim.Ctx
	mids  []string
	n     int
	fail  bool
	spawn bool // emitted messages may ask the captain to create a new machine mid-cascade
	nlate int
}

// spawnMsg asks the captain for a new recorder machine.
func (g *vfGen) spawnMsg() map[string]interface{} {
	g.nlate++
	name := fmt.Sprintf("late%d", g.nlate)
	b, _ := json.Marshal(vfRecorderSpec())
	var spec interface{}
	json.Unmarshal(b, &spec)
	return map[string]interface{}{"id": g.id(), "to": "captain", "update": map[string]interface{}{name: map[string]interface{}{"spec": map[string]interface{}{"inline": spec}}}}
}

func (g *vfGen) id() string { g.n++; return fmt.Sprintf("m%d", g.n) }

func (g *vfGen) target() interface{} {
	c := g.c
	pick := func() interface{} {
		switch c.Intn(8, "tgtmember") {
		case 0:
			return "nobody"
		case 1:
			return 7.0
		case 2:
			return nil
		}
		return g.mids[c.Intn(len(g.mids), "tgtmid")]
	}
	switch c.Intn(10, "tgtkind") {
	case 0, 1, 2:
		return nil // absent
	case 3, 4:
		return g.mids[c.Intn(len(g.mids), "tgtmid")]
	case 5:
		return "*"
	case 6:
		return "nobody"
	case 7:
		return []string{"timers", "captain"}[c.Intn(2, "svc")]
	}
	n := 1 + c.Intn(3, "tgtlist")
	var l []interface{}
	for i := 0; i < n; i++ {
		l = append(l, pick())
	}
	if c.Chance(1, 3, "tgtrepeat") {
		l = append(l, l[0])
	}
	if c.Chance(1, 6, "tgtsvc") {
		l = append(l, "timers")
	}
	return l
}

func (g *vfGen) message(hops int) map[string]interface{} {
	c := g.c
	g.depth++
	defer func() { g.depth-- }()
	m := map[string]interface{}{"id": g.id()}
	if t := g.target(); t != nil {
		m["to"] = t
	}
	if hops > 0 && c.Chance(2, 3, "emits") {
		em := map[string]interface{}{}
		for _, mid := range g.mids {
			if c.Chance(1, 2, "emitter") {
				var l []interface{}
				for i := 1 + c.Intn(2, "nemit"); i > 0; i-- {
					l = append(l, g.message(hops-1))
				}
				if g.spawn && c.Chance(1, 5, "spawn") {
					l = append(l, g.spawnMsg())
				}
				em[mid] = l
			}
		}
		m["emit"] = em
	}
	if c.Chance(1, 3, "items") {
		// cargo: an array with objects in it (what a receiver writes into its copy of it must
		// not show in the message as reported or as seen by others)
		m["items"] = []interface{}{map[string]interface{}{"n": 1.0}, map[string]interface{}{"n": 2.0}}
	}
	if len(g.mids) > 0 && c.Chance(1, 6, "skips") {
		m["skip"] = map[string]interface{}{g.mids[c.Intn(len(g.mids), "skipper")]: true}
	}
	// (only in a submitted message: where in a round of a cascade a failing guard falls decides
	// at which node the machine is left, and the order within a round is unspecified)
	if g.depth == 1 && len(g.mids) > 0 && c.Chance(1, 8, "booms") {
		m["boom"] = map[string]interface{}{g.mids[c.Intn(len(g.mids), "boomer")]: true}
	}
	if hops > 0 && len(g.mids) > 0 && c.Chance(1, 6, "forwards") {
		targets := append(append([]string{}, g.mids...), "nobody")
		t1 := c.Intn(len(targets), "fwd1")
		t2 := (t1 + 1 + c.Intn(len(targets)-1, "fwd2")) % len(targets)
		m["fwd"] = map[string]interface{}{g.mids[c.Intn(len(g.mids), "forwarder")]: map[string]interface{}{
			"msg": map[string]interface{}{"id": g.id()}, "to": []interface{}{targets[t1], targets[t2]}}}
	}
	if g.fail && c.Chance(1, 3, "fails") {
		fm := map[string]interface{}{}
		for _, mid := range g.mids {
			if c.Chance(1, 3, "failer") {
				fm[mid] = float64(c.Intn(3, "failafter"))
			}
		}
		m["fail"] = fm
	}
	return m
}

// vfRecipients is the documented routing rule over the ordinary machines
// present (service machines only when named).
func vfRecipients(msg interface{}, present map[string]bool) []string {
	all := func() []string {
		var out []string
		for m := range present {
			if m != "timers" && m != "captain" {
				out = append(out, m)
			}
		}
		sort.Strings(out)
		return out
	}
	m, ok := msg.(map[string]interface{})
	if !ok {
		return all()
	}
	to, have := m["to"]
	if !have {
		return all()
	}
	seen := map[string]bool{}
	var out []string
	add := func(s string) {
		if present[s] && !seen[s] {
			seen[s] = true
			out = append(out, s)
		}
	}
	switch v := to.(type) {
	case string:
		if v == "*" {
			return all()
		}
		add(v)
	case []interface{}:
		for _, x := range v {
			if s, ok := x.(string); ok {
				add(s)
			}
		}
	default:
		return all()
	}
	return out
}

// vfModel predicts, for one submitted message, who sees which message how often
// and what each machine emits (a reference router, breadth-first).
type vfModel struct {
	seen     map[string][]string        // machine -> message ids it must see
	optional map[string]map[string]bool // machine -> message ids it may or may not see
	depth    map[string]int             // message id -> depth
	batches  []string                   // canonical emission batches (one per machine per message that emitted)
	count    int
	spawned  map[string]int // machines created during this cascade -> depth of the creating message
	echo     []string       // ids of the messages presented to the stateless machine "echo", if the crew has one
}

// vfPredict mutates present/recorders when the cascade creates machines.
//
// A machine created by a message of depth d certainly does not exist for
// messages of smaller depth, certainly exists for deeper ones (the crew is
// breadth-first), and may or may not exist yet for other messages of depth d
// (the order within a round is unspecified).  Late machines are never told to
// emit, so the message tree itself does not depend on that order.
func vfPredict(msg map[string]interface{}, present map[string]bool, recorders map[string]bool, poison ...map[string]bool) *vfModel {
	// poison (optional, updated): machines whose bindings hold a value that cannot be
	// encoded; every later action of such a machine fails before it runs.
	var poisoned map[string]bool
	md := &vfModel{seen: map[string][]string{}, optional: map[string]map[string]bool{}, depth: map[string]int{}, spawned: map[string]int{}}
	type item struct {
		m interface{}
		d int
	}
	for pass := 0; pass < 2; pass++ {
		md.seen = map[string][]string{}
		md.batches = nil
		md.echo = nil
		md.count = 0
		poisoned = map[string]bool{}
		if len(poison) > 0 {
			for k := range poison[0] {
				poisoned[k] = true
			}
		}
		queue := []item{{msg, 0}}
		for len(queue) > 0 {
			it := queue[0]
			queue = queue[1:]
			md.count++
			mm, _ := it.m.(map[string]interface{})
			id := fmt.Sprint(mm["id"])
			md.depth[id] = it.d
			if to, _ := mm["to"].(string); to == "captain" && pass == 0 {
				if up, ok := mm["update"].(map[string]interface{}); ok {
					for name := range up {
						if !present[name] {
							if d, seen := md.spawned[name]; !seen || it.d < d {
								md.spawned[name] = it.d
							}
						}
					}
				}
			}
			if pass == 0 {
				// only the message tree matters in the first pass
			}
			now := map[string]bool{}
			for m := range present {
				now[m] = true
			}
			maybe := map[string]bool{}
			for name, d := range md.spawned {
				switch {
				case it.d > d:
					now[name] = true
				case it.d == d:
					maybe[name] = true
				}
			}
			for _, mid := range vfRecipients(it.m, now) {
				if mid == vfEchoMid && !recorders[mid] {
					md.echo = append(md.echo, id)
					continue
				}
				if !recorders[mid] && md.spawned[mid] == 0 {
					if _, late := md.spawned[mid]; !late {
						continue
					}
				}
				if _, late := md.spawned[mid]; late {
					md.seen[mid] = append(md.seen[mid], id)
					continue
				}
				var emits []interface{}
				if em, ok := mm["emit"].(map[string]interface{}); ok {
					emits, _ = em[mid].([]interface{})
				}
				failAfter := -1
				if fm, ok := mm["fail"].(map[string]interface{}); ok {
					if f, ok := fm[mid].(float64); ok {
						failAfter = int(f)
					}
				}
				if poisoned[mid] {
					continue
				}
				if bm, ok := mm["boom"].(map[string]interface{}); ok && bm[mid] == true && !poisoned["@error:"+mid] {
					// the guard of the start node failed (before it looked at anything else):
					// consumed, not recorded; the machine now listens at its error node (whose
					// guard does not know "boom")
					poisoned["@error:"+mid] = true
					continue
				}
				if sk, ok := mm["skip"].(map[string]interface{}); ok && sk[mid] == true {
					continue // rejected by the guard: consumed, not recorded, the machine stays where it is
				}
				delete(poisoned, "@error:"+mid) // whatever the action does, the machine is back at start afterwards
				if failAfter >= 0 {
					continue // a failing action emits nothing (and records nothing: its bindings are discarded)
				}
				md.seen[mid] = append(md.seen[mid], id)
				if fw, ok := mm["fwd"].(map[string]interface{}); ok {
					if f, ok := fw[mid].(map[string]interface{}); ok {
						emits = append([]interface{}{}, emits...)
						tos, _ := f["to"].([]interface{})
						for _, to := range tos {
							cp, _ := vfJSONCopy(f["msg"]).(map[string]interface{})
							cp["to"] = to
							emits = append(emits, cp)
						}
					}
				}
				if wm, ok := mm["wreck"].(map[string]interface{}); ok && wm[mid] == true {
					// records and emits as told, then a failing step takes the machine to its
					// error node - where it listens on
					poisoned["@error:"+mid] = true
				}
				if nm, ok := mm["nan"].(map[string]interface{}); ok && nm[mid] == true {
					poisoned[mid] = true
					continue // records the message, then returns an unencodable state without emitting
				}
				if len(emits) > 0 {
					md.batches = append(md.batches, ref.Canon(emits))
					for _, e := range emits {
						queue = append(queue, item{e, it.d + 1})
					}
				}
			}
			if pass == 1 {
				withMaybe := map[string]bool{}
				for m := range now {
					withMaybe[m] = true
				}
				for m := range maybe {
					withMaybe[m] = true
				}
				for _, mid := range vfRecipients(it.m, withMaybe) {
					if maybe[mid] {
						if md.optional[mid] == nil {
							md.optional[mid] = map[string]bool{}
						}
						md.optional[mid][id] = true
					}
				}
			}
		}
	}
	for name := range md.spawned {
		present[name] = true
		recorders[name] = true
	}
	sort.Strings(md.batches)
	if len(poison) > 0 {
		for k := range poison[0] {
			delete(poison[0], k)
		}
		for k := range poisoned {
			poison[0][k] = true
		}
	}
	return md
}

func vfJSONCopy(x interface{}) interface{} {
	b, _ := json.Marshal(x)
	var y interface{}
	json.Unmarshal(b, &y)
	return y
}

func vfJoin(xs []string) string { return strings.Join(xs, ",") }
