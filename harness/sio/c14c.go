//go:build verif_sim

package sio

// C14/captain-list: crew operations that travel in a message addressed to a list -
// the captain and the very machine the operation creates or removes.  The recipients of
// a list are walked in list order, so such a message must have the effect of its two
// halves delivered one after the other (captain's half first when the captain is named
// first, last when it is named last).  Metamorphic oracle: one crew gets the combined
// messages, a twin gets the halves; afterwards every machine has been presented the
// same messages (recorder logs) and the same messages were emitted.

import (
	"context"
	"fmt"
	"sort"
	"strings"
	"testing"

	"verif/ref"
	"verif/sim"
)

func init() { vfRegistry["C14/captain-list"] = runC14CaptainList }

func runC14CaptainList(c *sim.Ctx, t *testing.T) {
	sim.Install(c)
	defer sim.Uninstall()
	ctx := context.Background()
	mkCrew := func() *Crew {
		crew, _, err := vfNewCrew(ctx)
		if err != nil {
			c.Infra = "NewCrew: " + err.Error()
			return nil
		}
		return crew
	}
	one, two := mkCrew(), mkCrew()
	if one == nil || two == nil {
		return
	}
	pool := []string{"r0", "r1", "r2", "r3"}
	exists := map[string]bool{}
	n0 := 1 + c.Intn(3, "ninitial")
	for i := 0; i < n0; i++ {
		for _, crew := range []*Crew{one, two} {
			if err := crew.SetMachine(ctx, pool[i], vfSpecSource(), nil); err != nil {
				c.Infra = "SetMachine: " + err.Error()
				return
			}
		}
		exists[pool[i]] = true
	}
	var emittedOne, emittedTwo []string
	feed := func(crew *Crew, m map[string]interface{}, into *[]string) bool {
		var r *Result
		var err error
		if c.Guard("ProcessMsg "+ref.Canon(m), func() { r, err = crew.ProcessMsg(ctx, vfJSONCopy(m)) }) {
			return false
		}
		if err != nil {
			c.Violate("route:captain-list:error", "ProcessMsg(%s) failed: %v", ref.Canon(m), err)
			return false
		}
		for _, batch := range r.Emitted {
			for _, e := range batch {
				*into = append(*into, ref.Canon(e))
			}
		}
		return true
	}
	nops := 2 + c.Intn(5, "nops")
	history := ""
	for i := 0; i < nops; i++ {
		id := fmt.Sprintf("m%d", i)
		subject := pool[c.Intn(len(pool), "subject")]
		// other recipients of the list
		var others []interface{}
		for _, p := range pool {
			if p != subject && c.Chance(1, 3, "other") {
				others = append(others, p)
			}
		}
		var op map[string]interface{}
		kind := ""
		switch k := c.Intn(4, "kind"); {
		case k == 0:
			kind = "plain"
		case exists[subject] && k == 1:
			kind = "delete"
			op = map[string]interface{}{"delete": []interface{}{subject}}
		case !exists[subject]:
			kind = "create"
			op = map[string]interface{}{"update": map[string]interface{}{subject: map[string]interface{}{"spec": map[string]interface{}{"inline": vfSpecJSON(1)}}}}
		default:
			kind = "state"
			op = map[string]interface{}{"update": map[string]interface{}{subject: map[string]interface{}{"state": map[string]interface{}{"node": "start", "bs": map[string]interface{}{"log": []interface{}{map[string]interface{}{"id": "reset" + id}}}}}}}
		}
		// every recipient emits one message nobody hears, so that emissions are compared too
		emit := map[string]interface{}{}
		for _, p := range pool {
			emit[p] = []interface{}{map[string]interface{}{"id": id + "-from-" + p, "to": "nobody"}}
		}
		if kind == "plain" {
			to := append([]interface{}{subject}, others...)
			m := map[string]interface{}{"id": id, "to": to, "emit": emit}
			if !feed(one, m, &emittedOne) || !feed(two, m, &emittedTwo) {
				return
			}
			history += fmt.Sprintf("\n  %d plain to %v", i, to)
			continue
		}
		captainFirst := c.Bool("captainfirst")
		rest := append([]interface{}{subject}, others...)
		var to []interface{}
		if captainFirst {
			to = append([]interface{}{"captain"}, rest...)
		} else {
			to = append(append([]interface{}{}, rest...), "captain")
		}
		combined := map[string]interface{}{"id": id, "to": to, "emit": emit}
		for k, v := range op {
			combined[k] = v
		}
		capHalf := map[string]interface{}{"id": id, "to": "captain"}
		for k, v := range op {
			capHalf[k] = v
		}
		restHalf := map[string]interface{}{"id": id, "to": rest, "emit": emit}
		for k, v := range op {
			restHalf[k] = v // the payload is the same message; only the addressing differs
		}
		if !feed(one, combined, &emittedOne) {
			return
		}
		halves := []map[string]interface{}{capHalf, restHalf}
		if !captainFirst {
			halves = []map[string]interface{}{restHalf, capHalf}
		}
		for _, h := range halves {
			if !feed(two, h, &emittedTwo) {
				return
			}
		}
		switch kind {
		case "delete":
			exists[subject] = false
		case "create":
			exists[subject] = true
		}
		c.Count("combined_" + kind)
		history += fmt.Sprintf("\n  %d %s %s, to %v", i, kind, subject, to)
	}
	canon := func(crew *Crew) string {
		var names []string
		for mid := range crew.Machines {
			if mid != "captain" && mid != "timers" {
				names = append(names, mid)
			}
		}
		sort.Strings(names)
		s := ""
		for _, mid := range names {
			s += mid + "=" + vfMachineCanon(crew.Machines[mid]) + "; "
		}
		return s
	}
	a, b := canon(one), canon(two)
	if a != b {
		c.Violate("route:captain-list:presented", "a crew operation in a message addressed to [captain, machine...] was not presented like its two halves:\n  combined: %s\n  halves:   %s\n history:%s", a, b, history)
		return
	}
	sort.Strings(emittedOne)
	sort.Strings(emittedTwo)
	if strings.Join(emittedOne, "|") != strings.Join(emittedTwo, "|") {
		c.Violate("route:captain-list:emitted", "combined and split delivery emitted different messages:\n  combined: %v\n  halves:   %v\n history:%s", emittedOne, emittedTwo, history)
		return
	}
	c.MixHash(a + history)
	c.Path = history
	c.Trivial = false
	c.Sample = map[string]interface{}{"history": history}
}
