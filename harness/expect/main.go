//go:build verif_sim

package expect

// C19: the expectation tool's Session.Run on a simulated child process whose
// output stream suffers duplicates, drops, reordering, delays past the step
// timeout, noise lines and forbidden lines; timeouts are the tool's own code on
// the simulated clock.  Oracle: necessary conditions for a pass (strict
// direction) and "an expected message that never arrives ends in an error, not
// a hang".

import (
	"bufio"
	"context"
	"encoding/json"
	"fmt"
	"io"
	"log"
	"strings"
	"testing"
	"time"

	"github.com/Comcast/sheens/core"
	"github.com/Comcast/sheens/interpreters/ecmascript"

	"verif/sim"
	"verif/sim/simexec"
)

var xRegistry = sim.Registry{"C19": runC19}

func TestSim(t *testing.T) {
	log.SetOutput(io.Discard)
	sim.Main(t, xRegistry)
}

type xOutput struct {
	key      string // value of "k" the pattern asks for
	withVar  bool
	guard    string // "" | accept | reject | atleast2
	inverted bool
	bang     bool // the pattern's variable is named "?v!" (a permanent binding) instead of "?v"
	propVar  bool // the pattern is {"?p": key}
	multi    int  // >0: the pattern also asks for "tags":["?t"], and each of its lines carries that many tags (so one line matches in several ways): some property (which one is left open) has the value
}

type xLine struct {
	text  string
	delay time.Duration // since the previous line (or since the input was read)
	why   string
}

type xStep struct {
	outputs   []xOutput
	timeout   time.Duration
	lines     []xLine
	fault     string
	exits     bool // the child exits after writing exitAfter lines of this step
	exitAfter int
}

func xGuardSrc(kind string, bang bool) *core.ActionSource {
	if kind == "atleast2" && bang {
		return &core.ActionSource{Interpreter: "ecmascript", Source: `return (_.bindings["?v!"] >= 2) ? _.bindings : null;`}
	}
	switch kind {
	case "accept":
		return &core.ActionSource{Interpreter: "ecmascript", Source: `return _.bindings;`}
	case "reject":
		return &core.ActionSource{Interpreter: "ecmascript", Source: `return null;`}
	case "atleast2":
		return &core.ActionSource{Interpreter: "ecmascript", Source: `return (_.bindings["?v"] >= 2) ? _.bindings : null;`}
	case "throwlow":
		// written for values of at least 2: fails on anything else
		return &core.ActionSource{Interpreter: "ecmascript", Source: `if (_.bindings["?v"] < 2) { throw new Error("unexpected value"); } return _.bindings;`}
	}
	return nil
}

// xAccepts: does output o accept the (parsed) line?
func xAccepts(o xOutput, m map[string]interface{}) bool {
	if o.inverted {
		return xMatchesPattern(o, m)
	}
	if m["k"] != o.key {
		return false
	}
	if o.multi > 0 {
		if tags, _ := m["tags"].([]interface{}); len(tags) == 0 {
			return false
		}
	}
	v, hasV := m["v"].(float64)
	if o.withVar && !hasV {
		if _, any := m["v"]; !any {
			return false
		}
	}
	switch o.guard {
	case "reject":
		return false
	case "atleast2", "throwlow":
		return hasV && v >= 2
	}
	return true
}

func xMatchesPattern(o xOutput, m map[string]interface{}) bool {
	if o.inverted {
		if m["bad"] != o.key {
			return false
		}
		if o.withVar {
			// a forbidden pattern with a guard: only what the guard accepts is forbidden
			v, hasV := m["v"].(float64)
			return hasV && v >= 2
		}
		return true
	}
	if m["k"] != o.key {
		return false
	}
	if o.withVar {
		_, any := m["v"]
		return any
	}
	return true
}

// xDefaultTimeout: the session's default timeout (for steps without their own): longer or
// shorter than the steps' own 300 ms / 1 s.
var xDefaultTimeout = 2 * time.Second

func runC19(c *sim.Ctx, t *testing.T) {
	xDefaultTimeout = []time.Duration{2 * time.Second, 2 * time.Second, 200 * time.Millisecond}[c.Intn(3, "defaulttimeout")]
	nsteps := 1 + c.Intn(3, "nsteps")
	steps := make([]*xStep, nsteps)
	for i := range steps {
		st := &xStep{timeout: []time.Duration{time.Second, 300 * time.Millisecond, 0}[c.Intn(3, "timeout")]}
		nout := 1 + c.Intn(3, "nout")
		onlyForbidden := i == 0 && c.Chance(1, 10, "onlyforbidden")
		if onlyForbidden {
			// a step that verifies that something does not happen: no expected output at all
			nout = 0
		}
		for j := 0; j < nout; j++ {
			o := xOutput{key: fmt.Sprintf("s%do%d", i, j), withVar: c.Bool("withvar")}
			if !o.withVar && c.Chance(1, 5, "propvar") {
				o.propVar = true
			}
			if !o.withVar && !o.propVar && c.Chance(1, 4, "multi") {
				o.multi = 2 + c.Intn(2, "multiways")
			}
			if o.withVar {
				o.bang = c.Chance(1, 3, "bangvar")
				o.guard = []string{"", "accept", "atleast2", "atleast2", "throwlow"}[c.Intn(5, "guard")]
				if o.guard == "throwlow" {
					o.bang = false
				}
			} else {
				o.guard = []string{"", "", "accept"}[c.Intn(3, "guard2")]
			}
			st.outputs = append(st.outputs, o)
		}
		if c.Chance(1, 3, "inverted") {
			st.outputs = append(st.outputs, xOutput{key: fmt.Sprintf("s%d", i), inverted: true})
		}
		// ideal stream: one acceptable line per expected output
		line := func(o xOutput, v float64) string {
			m := map[string]interface{}{"k": o.key, "n": float64(len(st.lines))}
			if o.withVar {
				m["v"] = v
			}
			if o.multi > 0 {
				m["tags"] = []interface{}{"door", "window", "roof"}[:o.multi]
			}
			b, _ := json.Marshal(m)
			return string(b)
		}
		// a long line: more than any reader's buffer holds (an error with a stack trace, a dump of bindings)
		pad := func(text string, why string) string {
			if !strings.HasPrefix(text, "{") || !c.Chance(1, 3, why) {
				return text
			}
			n := []int{4090, 5000, 70000, 300}[c.Intn(4, "padsize")]
			if c.Bool("padcodes") {
				// structure all along the line: a list of numbers
				return `{"codes":[` + strings.TrimSuffix(strings.Repeat("1000,", n/5), ",") + `],` + text[1:]
			}
			return `{"pad":"` + strings.Repeat("x", n) + `",` + text[1:]
		}
		for _, o := range st.outputs {
			if !o.inverted {
				st.lines = append(st.lines, xLine{text: line(o, 2), delay: time.Duration(1+c.Intn(5, "delay")) * 10 * time.Millisecond, why: "expected " + o.key})
			}
		}
		if onlyForbidden {
			// the first message the child writes decides: the forbidden one, or an unrelated one
			st.outputs = []xOutput{{key: fmt.Sprintf("s%d", i), inverted: true}}
			st.lines = nil
			if c.Bool("ofnoise") {
				st.lines = append(st.lines, xLine{text: "not json at all", delay: 5 * time.Millisecond, why: "noise"})
			}
			if c.Bool("ofhit") {
				st.lines = append(st.lines, xLine{text: fmt.Sprintf(`{"bad":"s%d"}`, i), delay: 5 * time.Millisecond, why: "forbidden"})
				st.fault = "only-forbidden-hit"
			} else {
				st.lines = append(st.lines, xLine{text: `{"x": 1}`, delay: 5 * time.Millisecond, why: "unrelated"})
				st.fault = "only-forbidden-quiet"
			}
			steps[i] = st
			continue
		}
		// faults
		st.fault = []string{"none", "none", "dup", "drop", "dup+drop", "reorder", "late", "noise", "forbidden", "guard-reject", "reject-all", "forbidden-in-required", "exit-early", "forbidden-seen-before", "forbidden-guarded", "forbidden-on-guard-error", "same-pattern-other-guard"}[c.Intn(17, "fault")]
		req := len(st.lines)
		switch st.fault {
		case "dup":
			k := c.Intn(req, "dupwhich")
			st.lines = append(st.lines, xLine{text: st.lines[k].text, delay: 10 * time.Millisecond, why: "duplicate"})
		case "drop":
			k := c.Intn(req, "dropwhich")
			st.lines = append(st.lines[:k], st.lines[k+1:]...)
		case "dup+drop":
			if req >= 2 {
				d := c.Intn(req, "dropwhich")
				k := (d + 1 + c.Intn(req-1, "dupwhich")) % req
				dup := xLine{text: st.lines[k].text, delay: 10 * time.Millisecond, why: "duplicate standing where the dropped line was"}
				st.lines[d] = dup
			} else {
				st.fault = "none"
			}
		case "reorder":
			for k := len(st.lines) - 1; k > 0; k-- {
				j := c.Intn(k+1, "shuffle")
				st.lines[k], st.lines[j] = st.lines[j], st.lines[k]
			}
		case "late":
			k := c.Intn(req, "latewhich")
			to := st.timeout
			if to == 0 {
				to = xDefaultTimeout
			}
			st.lines[k].delay = to + 50*time.Millisecond
			st.lines[k].why += " (late)"
		case "noise":
			st.lines = append([]xLine{{text: "not json at all", delay: 5 * time.Millisecond, why: "noise"}, {text: `{"x": 1}`, delay: 5 * time.Millisecond, why: "unrelated"}}, st.lines...)
			st.lines = append(st.lines[:len(st.lines)-1], xLine{text: `[1, 2`, delay: 5 * time.Millisecond, why: "noise"}, st.lines[len(st.lines)-1])
		case "forbidden":
			hasInv := false
			for _, o := range st.outputs {
				if o.inverted {
					hasInv = true
				}
			}
			if !hasInv {
				st.outputs = append(st.outputs, xOutput{key: fmt.Sprintf("s%d", i), inverted: true})
			}
			bad := xLine{text: pad(fmt.Sprintf(`{"bad":"s%d"}`, i), "bigforbidden"), delay: 5 * time.Millisecond, why: "forbidden"}
			k := c.Intn(len(st.lines), "forbiddenpos") // before the last required line
			st.lines = append(st.lines[:k], append([]xLine{bad}, st.lines[k:]...)...)
		case "forbidden-seen-before":
			// the forbidden line of this step was already seen, as noise, during the step before
			hasInv := false
			for _, o := range st.outputs {
				if o.inverted {
					hasInv = true
				}
			}
			if !hasInv {
				st.outputs = append(st.outputs, xOutput{key: fmt.Sprintf("s%d", i), inverted: true})
			}
			bad := xLine{text: fmt.Sprintf(`{"bad":"s%d"}`, i), delay: 5 * time.Millisecond, why: "forbidden (and seen before)"}
			if i > 0 && len(steps[i-1].lines) > 0 {
				prev := steps[i-1]
				prev.lines = append([]xLine{{text: bad.text, delay: 5 * time.Millisecond, why: "noise here, forbidden in the next step"}}, prev.lines...)
				if prev.exits {
					prev.exitAfter++
				}
			} else {
				st.fault = "forbidden"
			}
			k := c.Intn(len(st.lines), "forbiddenpos")
			st.lines = append(st.lines[:k], append([]xLine{bad}, st.lines[k:]...)...)
		case "forbidden-guarded":
			// the forbidden pattern has a guard: a first candidate is rejected, a later one accepted
			var rest []xOutput
			for _, o := range st.outputs {
				if !o.inverted {
					rest = append(rest, o)
				}
			}
			st.outputs = append(rest, xOutput{key: fmt.Sprintf("s%d", i), inverted: true, withVar: true, guard: "atleast2"})
			lo := xLine{text: fmt.Sprintf(`{"bad":"s%d","v":1}`, i), delay: 5 * time.Millisecond, why: "matches the forbidden pattern, rejected by its guard"}
			hi := xLine{text: pad(fmt.Sprintf(`{"bad":"s%d","v":2}`, i), "bigforbidden"), delay: 5 * time.Millisecond, why: "forbidden"}
			k := c.Intn(len(st.lines), "forbiddenpos")
			st.lines = append(st.lines[:k], append([]xLine{lo, hi}, st.lines[k:]...)...)
		case "forbidden-on-guard-error":
			// one line is a candidate for a guarded expected output - whose guard chokes on it - and
			// matches the forbidden pattern (listed after that output) as well
			var g *xOutput
			for j := range st.outputs {
				if st.outputs[j].guard == "throwlow" {
					g = &st.outputs[j]
					break
				}
			}
			if g == nil {
				st.fault = "none"
				break
			}
			hasInv := false
			for _, o := range st.outputs {
				if o.inverted {
					hasInv = true
				}
			}
			if !hasInv {
				st.outputs = append(st.outputs, xOutput{key: fmt.Sprintf("s%d", i), inverted: true})
			}
			both := xLine{text: fmt.Sprintf(`{"k":%q,"v":1,"bad":"s%d"}`, g.key, i), delay: 5 * time.Millisecond, why: "candidate for " + g.key + " (its guard fails on it) and forbidden"}
			k := c.Intn(len(st.lines), "forbiddenpos")
			st.lines = append(st.lines[:k], append([]xLine{both}, st.lines[k:]...)...)
		case "forbidden-in-required":
			// the message that completes the step also matches the forbidden pattern (listed after the expected ones)
			hasInv := false
			for _, o := range st.outputs {
				if o.inverted {
					hasInv = true
				}
			}
			if !hasInv {
				st.outputs = append(st.outputs, xOutput{key: fmt.Sprintf("s%d", i), inverted: true})
			}
			last := &st.lines[len(st.lines)-1]
			var m map[string]interface{}
			json.Unmarshal([]byte(last.text), &m)
			m["bad"] = fmt.Sprintf("s%d", i)
			b, _ := json.Marshal(m)
			last.text = string(b)
			last.why += " (also forbidden)"
		case "exit-early":
			// the child process ends (its stdout reaches EOF) with expected output outstanding
			st.exitAfter = c.Intn(req, "exitafter")
			st.exits = true
		case "guard-reject":
			// one output's only line carries a value its guard rejects
			found := false
			for j, o := range st.outputs {
				if o.guard == "atleast2" || o.guard == "throwlow" {
					for k := range st.lines {
						if strings.Contains(st.lines[k].text, `"k":"`+o.key+`"`) {
							st.lines[k].text = line(o, 1)
							st.lines[k].why = "value rejected by the guard of " + o.key
							found = true
						}
					}
					_ = j
					break
				}
			}
			if !found {
				st.fault = "none"
			}
		case "reject-all":
			st.outputs[0].guard = "reject"
		case "same-pattern-other-guard":
			// this step asks for the very pattern an earlier step asked for, with another guard:
			// one that accepts nothing.  Each output is judged by its own guard.
			var prev *xOutput
			for _, ps := range steps[:i] {
				for j := range ps.outputs {
					if po := &ps.outputs[j]; !po.inverted && po.withVar && !po.propVar && po.multi == 0 && po.guard != "reject" {
						prev = po
					}
				}
			}
			if prev == nil {
				st.fault = "none"
				break
			}
			old := st.outputs[0]
			o := xOutput{key: prev.key, withVar: true, bang: prev.bang, guard: "reject"}
			st.outputs[0] = o
			for k := range st.lines {
				if strings.Contains(st.lines[k].text, `"k":"`+old.key+`"`) {
					st.lines[k].text = line(o, 2)
					st.lines[k].why = "matches the pattern of " + o.key + " as an earlier step had it; this step's guard accepts nothing"
				}
			}
		}
		if len(st.lines) > 0 && c.Chance(1, 8, "bigexpected") {
			k := c.Intn(len(st.lines), "bigwhich")
			st.lines[k].text = pad(st.lines[k].text, "bigexpected2")
		}
		steps[i] = st
	}

	// ---- the session
	sess := &Session{DefaultTimeout: xDefaultTimeout, Interpreters: core.InterpretersMap{"ecmascript": ecmascript.NewInterpreter()}}
	// as in session files written in YAML: every pattern is given as JSON text
	sess.ParsePatterns = c.Chance(1, 4, "parsepatterns")
	// what the tool prints about the child's output is nobody's business but the reader's
	sess.ShowStdout = c.Bool("showstdout")
	sess.ShowStderr = c.Bool("showstderr")
	for i, st := range steps {
		iop := IO{Inputs: []interface{}{fmt.Sprintf(`{"go":%d}`, i)}, Timeout: st.timeout}
		switch c.Intn(4, "waits") {
		case 1:
			iop.WaitBefore = 5 * time.Millisecond
			iop.WaitAfter = 5 * time.Millisecond
		case 2:
			// the sender is still pausing when the step's time runs out
			iop.WaitAfter = 700 * time.Millisecond
		case 3:
			iop.WaitBefore = 200 * time.Millisecond
			iop.WaitAfter = 400 * time.Millisecond
		}
		for _, o := range st.outputs {
			pat := map[string]interface{}{"k": o.key}
			if o.inverted {
				pat = map[string]interface{}{"bad": o.key}
				if o.withVar {
					pat["v"] = "?v"
				}
			} else if o.withVar && o.bang {
				pat["v"] = "?v!"
			} else if o.withVar {
				pat["v"] = "?v"
			} else if o.propVar {
				// the only property of the stream's messages that can hold the key is "k"
				pat = map[string]interface{}{"?p": o.key}
			}
			if o.multi > 0 {
				pat["tags"] = []interface{}{"?t"}
			}
			var given interface{} = pat
			if sess.ParsePatterns {
				js, _ := json.Marshal(pat)
				given = string(js)
			}
			iop.OutputSet = append(iop.OutputSet, Output{Pattern: given, GuardSource: xGuardSrc(o.guard, o.bang), Inverted: o.inverted})
		}
		sess.IOs = append(sess.IOs, iop)
	}

	// fault of the whole session: the caller's context ends while it runs
	xCancelAt = 0
	if c.Chance(1, 6, "cancel") {
		xCancelAt = []time.Duration{20 * time.Millisecond, 80 * time.Millisecond, 300 * time.Millisecond, time.Second}[c.Intn(4, "cancelat")]
	}
	nruns := 1
	if c.Chance(1, 3, "rerun") {
		// a harness that runs one parsed session file again (a retry): the same Session value
		nruns = 2
	}
	var runErr error
	for runNo := 1; runNo <= nruns; runNo++ {
		if !xRunOnce(c, t, sess, steps, runNo, &runErr) {
			return
		}
	}
	shape := ""
	for _, st := range steps {
		shape += fmt.Sprintf("%d%s/", len(st.outputs), st.fault)
	}
	c.Path = shape + fmt.Sprint(runErr == nil, xCancelAt)
	c.Trivial = false
	if sess.ParsePatterns {
		c.Count("sessions_with_patterns_as_json_text")
	}
	c.Sample = map[string]interface{}{"steps": shape, "runs_of_the_session": nruns, "tool_error": errText(runErr), "patterns_as_text": sess.ParsePatterns}
}

func errText(err error) string {
	if err == nil {
		return ""
	}
	return err.Error()
}

// xCancelAt: when (after the start of a run) the session's context is cancelled; 0 = never.
var xCancelAt time.Duration

// xRunOnce runs the session once against a fresh simulated child and applies the
// oracle; returns false after recording a violation (or when nothing more can be said).
func xRunOnce(c *sim.Ctx, t *testing.T, sess *Session, steps []*xStep, runNo int, lastErr *error) bool {
	type emitted struct {
		step int
		pos  int
		at   time.Duration
		text string
	}
	var (
		lg       *sim.Log
		runErr   error
		returned bool
		endedAt  time.Duration
	)
	_ = endedAt
	sim.Bubble(c, t, func(s *sim.Sched) {
		s.Horizon = 2 * time.Minute
		s.MaxSteps = 6000
		lg = sim.NewLog()
		simexec.Factory = func(name string, args []string) simexec.Child {
			return func(stdin io.Reader, stdout, stderr io.Writer) {
				in := bufio.NewReader(stdin)
				for i := 0; ; i++ {
					_, err := in.ReadString('\n')
					if err != nil {
						return
					}
					sim.Yield("h#child-read")
					lg.Add(sim.Ev{Kind: "input", N: int64(i)})
					if i >= len(steps) {
						continue
					}
					for pos, ln := range steps[i].lines {
						if steps[i].exits && pos >= steps[i].exitAfter {
							lg.Add(sim.Ev{Kind: "child-exit", N: int64(i)})
							return
						}
						sim.Sleep(ln.delay)
						lg.Add(sim.Ev{Kind: "line", N: int64(i), Id: fmt.Sprint(pos), Val: ln.text})
						if _, err := io.WriteString(stdout, ln.text+"\n"); err != nil {
							return
						}
						sim.Yield("h#child-wrote")
					}
				}
			}
		}
		ctx, cancel := context.WithCancel(context.Background())
		s.Go("tool", func(tk *sim.Task) {
			runErr = sess.Run(ctx, "", "simulated-child")
			returned = true
			endedAt = s.Now()
			lg.Add(sim.Ev{Kind: "returned", Err: errText(runErr)})
		})
		if xCancelAt > 0 {
			s.Go("canceller", func(tk *sim.Task) {
				sim.Sleep(xCancelAt)
				lg.Add(sim.Ev{Kind: "cancel"})
				cancel()
			})
		}
		s.StopWhen = func() bool { return returned }
		s.Run()
		cancel()
		if simexec.Last != nil {
			simexec.Last.Kill()
		}
		s.Drain(400)
	})
	c.SimTime = c.Sched.SimTime
	evs := lg.Events()
	desc := fmt.Sprintf("\n  (run %d of the same Session value)", runNo)
	for i, st := range steps {
		desc += fmt.Sprintf("\n  step %d (timeout %v, fault %s): expects", i, st.timeout, st.fault)
		for _, o := range st.outputs {
			kind := "k=" + o.key
			if o.inverted {
				kind = "NOT bad=" + o.key
			}
			if o.withVar {
				kind += ",v=?v"
			}
			if o.multi > 0 {
				kind += `,tags=["?t"]`
			}
			if o.guard != "" {
				kind += " guard:" + o.guard
			}
			desc += " [" + kind + "]"
		}
		desc += "; child writes"
		for _, ln := range st.lines {
			text := ln.text
			if len(text) > 200 {
				text = fmt.Sprintf("%s...(%d bytes)...%s", text[:40], len(text), text[len(text)-80:])
			}
			desc += fmt.Sprintf(" +%v %s;", ln.delay, text)
		}
	}
	for _, e := range evs {
		c.MixHash(fmt.Sprintf("%d %s %d %s %s %v %s", e.Seq, e.Kind, e.N, e.Id, e.Val, e.At, e.Err))
		val := e.Val
		if len(val) > 200 {
			val = fmt.Sprintf("%s...(%d bytes)", val[:60], len(val))
		}
		c.Logf("ev %d t=%v %s step=%d %s %s %s", e.Seq, e.At, e.Kind, e.N, e.Id, val, e.Err)
	}
	// the stream as the child produced it
	readAt := map[int]time.Duration{}
	var stream []emitted
	cancelledAt := time.Duration(-1)
	for _, e := range evs {
		switch e.Kind {
		case "cancel":
			cancelledAt = e.At
		case "input":
			readAt[int(e.N)] = e.At
		case "line":
			pos := 0
			fmt.Sscan(e.Id, &pos)
			stream = append(stream, emitted{int(e.N), pos, e.At, e.Val})
		}
	}
	// necessary conditions for a pass
	why := ""
	faultOf := "none"
	neverArrives := false
	for i, st := range steps {
		to := st.timeout
		if to == 0 {
			to = xDefaultTimeout
		}
		lastNeeded := -1
		for _, o := range st.outputs {
			if o.inverted {
				continue
			}
			ok, anywhere, byCancel := false, false, false
			for _, ln := range stream {
				var m map[string]interface{}
				if json.Unmarshal([]byte(ln.text), &m) != nil {
					continue
				}
				if !xAccepts(o, m) {
					continue
				}
				anywhere = true
				r, started := readAt[i]
				if ln.step <= i && (!started || ln.at < r+to) {
					if cancelledAt >= 0 && ln.at > cancelledAt {
						// written at a later (simulated) time than the caller gave up - and time only
						// moves when the tool has nothing left to do: cannot have counted.  (At the
						// very same instant the tool may see either first.)
						byCancel = true
						continue
					}
					ok = true
					if ln.step == i && ln.pos > lastNeeded {
						lastNeeded = ln.pos
					}
					break
				}
			}
			if !anywhere {
				neverArrives = true
			}
			if !ok && why == "" {
				why = fmt.Sprintf("step %d: no line accepted for expected output k=%s arrived before the timeout", i, o.key)
				faultOf = st.fault
				if byCancel {
					why = fmt.Sprintf("step %d: the only lines accepted for expected output k=%s were written after the context had been cancelled (at %v)", i, o.key, cancelledAt)
					faultOf = "cancel"
				}
			}
		}
		if i == 0 && len(st.outputs) == 1 && st.outputs[0].inverted && strings.HasPrefix(st.fault, "only-forbidden") {
			// nothing is expected: the first message of the stream is what the step looks at
			for _, ln := range stream {
				var m map[string]interface{}
				if ln.step != 0 || json.Unmarshal([]byte(ln.text), &m) != nil {
					continue
				}
				r, started := readAt[0]
				inTime := started && ln.at < r+to && !(cancelledAt >= 0 && ln.at >= cancelledAt)
				if inTime && xMatchesPattern(st.outputs[0], m) && why == "" {
					why = "step 0 expects nothing and forbids bad=" + st.outputs[0].key + ", and the first message the child wrote matches that"
					faultOf = st.fault
				}
				break
			}
			continue
		}
		for _, o := range st.outputs {
			if !o.inverted {
				continue
			}
			for _, ln := range stream {
				var m map[string]interface{}
				if ln.step != i || json.Unmarshal([]byte(ln.text), &m) != nil {
					continue
				}
				if xMatchesPattern(o, m) && ln.pos <= lastNeeded && why == "" {
					why = fmt.Sprintf("step %d: the forbidden pattern bad=%s was matched by a line read before the step could complete", i, o.key)
					faultOf = st.fault
				}
			}
		}
	}
	c.Count("sessions")
	for _, st := range steps {
		c.Count("fault_" + st.fault)
		for _, o := range st.outputs {
			if o.multi > 0 {
				c.Count("outputs_matched_in_several_ways_by_one_line")
			}
		}
		for _, ln := range st.lines {
			if len(ln.text) > 4096 {
				c.Count("lines_longer_than_4096_bytes")
			}
		}
	}
	if !returned {
		if neverArrives || why != "" {
			c.Violate("verdict:hang:"+faultOf, "Session.Run did not return within %v of simulated time (%s)%s", c.Sched.SimTime, why, desc)
		} else if !c.Sched.Exhausted {
			c.Violate("verdict:hang:clean", "Session.Run did not return within %v of simulated time although every expected line arrived in time%s", c.Sched.SimTime, desc)
		}
		return false
	}
	if runErr == nil {
		c.Count("tool_passed")
		if why != "" {
			c.Violate("verdict:false-pass:"+faultOf, "the tool passed the session, but %s%s", why, desc)
			return false
		}
	} else {
		c.Count("tool_failed")
		if why == "" {
			c.Count("tool_failed_though_conditions_held")
		}
	}
	*lastErr = runErr
	return true
}
