//go:build verif_sim

package main

// C16: (faults) one client, store-failure windows opening and closing at every
// operation position, encode and key faults: after every operation memory ==
// store, and a failed write leaves both as they were.  (concurrent) 2-4 client
// tasks under the serial scheduler, history checked with porcupine against a
// sequential crew model, plus memory == store at quiescence.  (both) clients
// and a task that closes/reopens the store; only the quiescent invariant.

import (
	"context"
	"fmt"
	"os"
	"path/filepath"
	"sort"
	"strings"
	"testing"
	"time"

	"github.com/anishathalye/porcupine"

	"github.com/Comcast/sheens/core"
	"github.com/Comcast/sheens/crew"

	"verif/sim"
)

func init() {
	verifRegistry["C16/faults"] = runC16Faults
	verifRegistry["C16/concurrent"] = func(c *sim.Ctx, t *testing.T) { runC16Concurrent(c, t, false) }
	verifRegistry["C16/both"] = func(c *sim.Ctx, t *testing.T) { runC16Concurrent(c, t, true) }
}

// cwMemory renders the in-memory crew through the service's read API.
func cwMemory(svc *Service) map[string]string {
	out := map[string]string{}
	for mid, m := range svc.crew.Copy().Machines {
		spec := ""
		if m.SpecSource != nil {
			spec = m.SpecSource.Name
		}
		out[mid] = spec + ":" + svStateCanon(m.State)
	}
	return out
}

// cwStore renders the stored crew.
func cwStore(ctx context.Context, svc *Service) (map[string]string, error) {
	mss, err := svc.store.GetCrew(ctx, svc.crewName)
	if err != nil {
		return nil, err
	}
	out := map[string]string{}
	for _, ms := range mss {
		spec := ""
		if ms.SpecSource != nil {
			spec = ms.SpecSource.Name
		}
		out[ms.Mid] = spec + ":" + svStateCanon(&core.State{NodeName: ms.NodeName, Bs: ms.Bs})
	}
	return out, nil
}

func cwCanon(m map[string]string) string {
	ks := make([]string, 0, len(m))
	for k := range m {
		ks = append(ks, k)
	}
	sort.Strings(ks)
	var sb strings.Builder
	for _, k := range ks {
		kk := k
		if len(kk) > 24 {
			kk = fmt.Sprintf("%s...(%d bytes)", kk[:8], len(kk))
		}
		sb.WriteString(kk + "=" + m[k] + ";")
	}
	return sb.String()
}

type cwOp struct {
	kind string // add | rem | process | getcrew | close | open
	id   string
	msg  map[string]interface{}
}

func cwGenOps(c *sim.Ctx, ids []string, n int, faults bool, seq *int) []cwOp {
	var ops []cwOp
	for i := 0; i < n; i++ {
		id := ids[c.Intn(len(ids), "id")]
		switch k := c.Intn(12, "op"); {
		case k <= 2:
			ops = append(ops, cwOp{kind: "add", id: id})
		case k == 3:
			ops = append(ops, cwOp{kind: "rem", id: id})
		case k <= 7:
			*seq++
			m := map[string]interface{}{"id": fmt.Sprintf("m%d", *seq)}
			if c.Bool("routed") {
				m["to"] = id
			}
			if faults && c.Chance(1, 6, "nan") {
				m["nan"] = map[string]interface{}{id: true}
			}
			ops = append(ops, cwOp{kind: "process", id: id, msg: m})
		case k == 8:
			ops = append(ops, cwOp{kind: "getcrew"})
		case k == 9 && faults:
			bad := []string{"", strings.Repeat("k", 40000)}[c.Intn(2, "badkey")]
			ops = append(ops, cwOp{kind: "add", id: bad})
		default:
			ops = append(ops, cwOp{kind: "add", id: id})
		}
	}
	return ops
}

func cwOpString(op cwOp) string {
	id := op.id
	if len(id) > 24 {
		id = fmt.Sprintf("<%d-byte id>", len(id))
	}
	if op.msg != nil {
		return fmt.Sprintf("%s(%s)", op.kind, svCanonMsg(op.msg))
	}
	return fmt.Sprintf("%s(%q)", op.kind, id)
}

func svCanonMsg(m map[string]interface{}) string {
	ks := make([]string, 0, len(m))
	for k := range m {
		ks = append(ks, k)
	}
	sort.Strings(ks)
	var parts []string
	for _, k := range ks {
		parts = append(parts, fmt.Sprintf("%s:%v", k, m[k]))
	}
	return strings.Join(parts, ",")
}

func runC16Faults(c *sim.Ctx, t *testing.T) {
	sim.Install(c)
	defer sim.Uninstall()
	dir, err := svDir()
	if err != nil {
		c.Infra = err.Error()
		return
	}
	defer os.RemoveAll(dir)
	ctx, cancel := context.WithCancel(context.Background())
	defer cancel()
	svc, err := NewService(ctx, filepath.Join(dir, "specs"), filepath.Join(dir, "crew.db"), "")
	if err != nil {
		c.Infra = "NewService: " + err.Error()
		return
	}
	ids := []string{"a", "b", "c"}[:1+c.Intn(3, "nids")]
	seq := 0
	ops := cwGenOps(c, ids, 3+c.Intn(7, "nops"), true, &seq)
	if c.Chance(1, 5, "bigcrew") {
		// a big crew: a broadcast changes many machines in one batch write, and one of
		// them produces a state that cannot be encoded
		n := 17 + c.Intn(32, "crewsize")
		ids = nil
		ops = nil
		for i := 0; i < n; i++ {
			id := fmt.Sprintf("m%02d", i)
			ids = append(ids, id)
			ops = append(ops, cwOp{kind: "add", id: id})
		}
		for k := 2 + c.Intn(3, "nbroadcasts"); k > 0; k-- {
			seq++
			m := map[string]interface{}{"id": fmt.Sprintf("m%d", seq)}
			if c.Chance(2, 3, "nan") {
				m["nan"] = map[string]interface{}{ids[c.Intn(n, "nanid")]: true}
			}
			ops = append(ops, cwOp{kind: "process", msg: m})
		}
		c.Count("big_crews")
	}
	open := true
	hist := ""
	shape := ""
	for i, op := range ops {
		// the store starts or stops failing at this position
		if c.Chance(1, 4, "toggle") {
			if open {
				svc.store.db.Close()
				hist += " [store closed]"
			} else {
				if err := svc.store.Open(ctx); err != nil {
					c.Infra = "reopen: " + err.Error()
					return
				}
				hist += " [store reopened]"
			}
			open = !open
			c.Count("fault_windows_toggled")
		}
		before := cwCanon(cwMemory(svc))
		var oerr error
		// the request's step limit: none, or one that ends a recorder's walk exactly at (2) or
		// just past (3) its action - a walk that stops at its limit is stored like any other
		var ctl *core.Control
		if op.kind == "process" {
			if l := []int{0, 0, 2, 3, 1}[c.Intn(5, "limit")]; l > 0 {
				ctl = &core.Control{Limit: l}
			}
		}
		// the request's own context may already be over (a client that went away) while the
		// service and its store are up: whatever the operation then reports, memory and store
		// have to agree (only for operations that run no script: what a cancelled context does
		// to a script is C11's subject)
		opctx := ctx
		if (op.kind == "add" || op.kind == "rem") && c.Chance(1, 6, "cancelledrequest") {
			cctx, cancel := context.WithCancel(ctx)
			cancel()
			opctx = cctx
			c.Count("requests_with_cancelled_context")
		}
		viaProtocol, specName := false, "recorder"
		if op.kind == "add" || op.kind == "rem" {
			// half of the adds and removes come through the protocol layer (OpAdd.Do, OpRem.Do)
			viaProtocol = c.Bool("viaprotocol")
			if op.kind == "add" {
				specName = []string{"recorder", "recorderp1", "recorderp2"}[c.Intn(3, "specname")]
			}
			if viaProtocol {
				c.Count("ops_through_protocol_layer")
			}
		}
		if c.Guard(cwOpString(op), func() {
			switch op.kind {
			case "add":
				if viaProtocol {
					// as a client's request arrives: no state given, the spec's parameter
					// defaults become the initial bindings
					o := &OpAdd{Machine: &crew.Machine{Id: op.id, SpecSource: &crew.SpecSource{Name: specName}}}
					if oerr = o.Do(opctx, svc); oerr == nil {
						oerr = o.Error
					}
				} else {
					oerr = svc.AddMachine(opctx, specName, op.id, "start", nil)
				}
			case "rem":
				if viaProtocol {
					o := &OpRem{Id: op.id}
					if oerr = o.Do(opctx, svc); oerr == nil {
						oerr = o.Error
					}
				} else {
					oerr = svc.RemMachine(opctx, op.id)
				}
			case "process":
				_, oerr = svc.Process(ctx, svJSONCopy(op.msg), ctl)
			case "getcrew":
				svc.crew.Copy()
			}
		}) {
			return
		}
		hist += fmt.Sprintf(" %d:%s", i, cwOpString(op))
		if oerr != nil {
			hist += "->" + firstWords(oerr.Error())
		}
		after := cwCanon(cwMemory(svc))
		c.Count("ops_" + op.kind)
		fault := "none"
		if !open {
			fault = "store-closed"
			c.Count("ops_during_store_failure")
		}
		if op.msg != nil && op.msg["nan"] != nil {
			fault = "encode"
		}
		if op.kind == "add" && (op.id == "" || len(op.id) > 1000) {
			fault = "key"
		}
		shape += op.kind[:1] + fault[:1]
		if oerr != nil && oerr != Exists && after != before {
			c.Violate("memstore:"+op.kind+":"+fault+":memory-advanced-on-error", "op %d %s failed (%v) but changed the in-memory crew:\n  before %s\n  after  %s\nhistory:%s", i, cwOpString(op), oerr, before, after, hist)
			return
		}
		if !open && after != before {
			c.Violate("memstore:"+op.kind+":"+fault+":memory-advanced-without-write", "op %d %s ran while the store was failing and changed the in-memory crew:\n  before %s\n  after  %s\nhistory:%s", i, cwOpString(op), before, after, hist)
			return
		}
		if open {
			st, err := cwStore(ctx, svc)
			if err != nil {
				c.Infra = "GetCrew: " + err.Error()
				return
			}
			c.Count("memory_store_comparisons")
			if cwCanon(st) != after {
				c.Violate("memstore:"+op.kind+":"+fault+":memory-differs-from-store", "after op %d %s memory and store differ:\n  memory %s\n  store  %s\nhistory:%s", i, cwOpString(op), after, cwCanon(st), hist)
				return
			}
		}
	}
	if !open {
		svc.store.Open(ctx)
		st, err := cwStore(ctx, svc)
		if err == nil && cwCanon(st) != cwCanon(cwMemory(svc)) {
			c.Violate("memstore:final:store-closed:memory-differs-from-store", "after the store came back memory and store differ:\n  memory %s\n  store  %s\nhistory:%s", cwCanon(cwMemory(svc)), cwCanon(st), hist)
			return
		}
	}
	svc.store.db.Close()
	c.MixHash(hist)
	c.Path = shape
	c.Trivial = len(ops) < 2
	c.Sample = map[string]interface{}{"history": hist}
}

func firstWords(s string) string {
	if len(s) > 40 {
		return s[:40] + "..."
	}
	return s
}

// ---- concurrency -----------------------------------------------------------------

type cwIn struct {
	kind string
	id   string
	to   string // process: "" = all
	mid  string // message id
}

type cwOut struct {
	err    string
	snap   string            // getcrew
	walked map[string]string // process: mid -> from "=>" to
}

func cwParse(state string) map[string]string {
	m := map[string]string{}
	for _, kv := range strings.Split(state, ";") {
		if i := strings.Index(kv, "="); i > 0 {
			m[kv[:i]] = kv[i+1:]
		}
	}
	return m
}

var cwModel = porcupine.Model{
	Init: func() interface{} { return "" },
	Step: func(st, in, out interface{}) (bool, interface{}) {
		state := cwParse(st.(string))
		i := in.(cwIn)
		o := out.(cwOut)
		switch i.kind {
		case "add":
			_, have := state[i.id]
			if o.err == "exists" {
				return have, st
			}
			if o.err != "" || have {
				return false, st
			}
			state[i.id] = "recorder:start/{}"
			return true, cwCanon(state)
		case "rem":
			if o.err != "" {
				return false, st
			}
			delete(state, i.id)
			return true, cwCanon(state)
		case "getcrew":
			return o.snap == st.(string), st
		case "process":
			if o.err != "" {
				return false, st
			}
			want := map[string]bool{}
			for id := range state {
				if i.to == "" || i.to == id {
					want[id] = true
				}
			}
			if len(o.walked) != len(want) {
				return false, st
			}
			for id, ft := range o.walked {
				if !want[id] {
					return false, st
				}
				parts := strings.SplitN(ft, "=>", 2)
				if "recorder:"+parts[0] != state[id] {
					return false, st
				}
				state[id] = "recorder:" + parts[1]
			}
			return true, cwCanon(state)
		}
		return false, st
	},
	DescribeOperation: func(in, out interface{}) string {
		i := in.(cwIn)
		o := out.(cwOut)
		switch i.kind {
		case "process":
			return fmt.Sprintf("process(%s to=%q) -> %v %s", i.mid, i.to, o.walked, o.err)
		case "getcrew":
			return fmt.Sprintf("getcrew -> %s", o.snap)
		}
		return fmt.Sprintf("%s(%s) -> %q", i.kind, i.id, o.err)
	},
}

func runC16Concurrent(c *sim.Ctx, t *testing.T, faults bool) {
	dir, err := svDir()
	if err != nil {
		c.Infra = err.Error()
		return
	}
	defer os.RemoveAll(dir)
	ids := []string{"a", "b", "c"}[:1+c.Intn(3, "nids")]
	nclients := 2 + c.Intn(3, "nclients")
	seq := 0
	plans := make([][]cwOp, nclients)
	for i := range plans {
		plans[i] = cwGenOps(c, ids, 1+c.Intn(4, "nops"), false, &seq)
	}
	ntoggles := 0
	var toggleAfter []int
	var togglePause []bool
	if faults {
		ntoggles = 1 + c.Intn(4, "ntoggles")
		// when the store goes away and comes back: after so many scheduler steps of the faulter
		// (requests take no simulated time, so a clock alone would only ever strike between
		// them), and sometimes a millisecond later
		for k := 0; k < ntoggles+1; k++ {
			toggleAfter = append(toggleAfter, 1+c.Intn(6, "toggleafter"))
			togglePause = append(togglePause, c.Chance(1, 3, "togglepause"))
		}
	}
	thinks := make([][]bool, len(plans))
	for i := range plans {
		thinks[i] = make([]bool, len(plans[i]))
		for k := range thinks[i] {
			thinks[i][k] = faults && c.Chance(1, 4, "think")
		}
	}
	type rec struct {
		in       cwIn
		out      cwOut
		inv, ret int
	}
	recs := make([][]rec, nclients)
	var lg *sim.Log
	var memFinal, storeFinal string
	var storeErr error
	unfinished := false
	sim.Bubble(c, t, func(s *sim.Sched) {
		s.Horizon = 20 * time.Second
		s.MaxSteps = 8000
		lg = sim.NewLog()
		ctx, cancel := context.WithCancel(context.Background())
		svc, err := NewService(ctx, filepath.Join(dir, "specs"), filepath.Join(dir, "crew.db"), "")
		if err != nil {
			c.Infra = "NewService: " + err.Error()
			cancel()
			return
		}
		for i := range plans {
			i := i
			s.Go(fmt.Sprintf("client%d", i), func(tk *sim.Task) {
				for k, op := range plans[i] {
					sim.Yield("h#op")
					if thinks[i][k] {
						sim.Sleep(2 * time.Millisecond) // think time: the clock can move between requests
					}
					r := rec{in: cwIn{kind: op.kind, id: op.id}}
					r.inv = lg.Add(sim.Ev{Kind: op.kind + ".inv", Id: op.id})
					switch op.kind {
					case "add":
						err := svc.AddMachine(ctx, "recorder", op.id, "start", nil)
						if err == Exists {
							r.out.err = "exists"
						} else if err != nil {
							r.out.err = err.Error()
						}
					case "rem":
						if err := svc.RemMachine(ctx, op.id); err != nil {
							r.out.err = err.Error()
						}
					case "getcrew":
						r.out.snap = cwCanon(cwMemory(svc))
					case "process":
						r.in.mid = fmt.Sprint(op.msg["id"])
						if to, ok := op.msg["to"].(string); ok {
							r.in.to = to
						}
						ws, err := svc.Process(ctx, svJSONCopy(op.msg), nil)
						if err != nil {
							r.out.err = err.Error()
						}
						r.out.walked = map[string]string{}
						for mid, w := range ws {
							from, to := w.From(), w.To()
							if from == nil {
								continue
							}
							if to == nil {
								to = from
							}
							r.out.walked[mid] = svStateCanon(from) + "=>" + svStateCanon(to)
						}
					}
					r.ret = lg.Add(sim.Ev{Kind: op.kind + ".ret", Id: op.id, Err: r.out.err})
					recs[i] = append(recs[i], r)
				}
			})
		}
		if faults {
			s.Go("faulter", func(tk *sim.Task) {
				open := true
				for k := 0; k < ntoggles; k++ {
					if open {
						// the store goes away at any scheduler step, also in the middle of a request
						for y := 0; y < toggleAfter[k]; y++ {
							sim.Yield("h#fault")
						}
						if togglePause[k] {
							sim.Sleep(time.Millisecond)
						}
					} else {
						// it comes back a moment later, between requests: Open replaces the handle, so
						// the operator holds the crew's lock while doing that (a request that has let
						// go of the lock in mid-flight can still be caught out by it)
						sim.Yield("h#fault")
						if togglePause[k] {
							sim.Sleep(time.Millisecond)
						}
					}
					if open {
						svc.store.db.Close()
						lg.Add(sim.Ev{Kind: "store.closed"})
					} else {
						sim.Gate(&svc.crew, "h#operator")
						svc.crew.Lock()
						svc.store.Open(ctx)
						svc.crew.Unlock()
						sim.Yield("h#operator'")
						lg.Add(sim.Ev{Kind: "store.opened"})
					}
					open = !open
				}
				if !open {
					sim.Sleep(time.Millisecond)
					sim.Gate(&svc.crew, "h#operator")
					svc.crew.Lock()
					svc.store.Open(ctx)
					svc.crew.Unlock()
					sim.Yield("h#operator'")
					lg.Add(sim.Ev{Kind: "store.opened"})
				}
			})
		}
		s.Run()
		if !s.Quiescent() {
			unfinished = true
			cancel()
			s.Drain(600)
			return
		}
		// faults have stopped, nothing is running: memory == store
		memFinal = cwCanon(cwMemory(svc))
		st, err := cwStore(ctx, svc)
		storeErr = err
		storeFinal = cwCanon(st)
		cancel()
		s.Drain(600)
	})
	if c.Infra != "" {
		return
	}
	c.SimTime = c.Sched.SimTime
	hist := ""
	for _, e := range lg.Events() {
		hist += fmt.Sprintf("\n  %d %s %s %s %s", e.Seq, e.Task, e.Kind, firstWords(e.Id), e.Err)
		c.MixHash(fmt.Sprintf("%d %s %s %s %s", e.Seq, e.Task, e.Kind, e.Id, e.Err))
	}
	if len(c.Sched.Deadlock) > 0 {
		c.Violate("deadlock:"+siteFuncs(c.Sched.Deadlock), "tasks blocked on locks forever: %v%s", c.Sched.Deadlock, hist)
	}
	if c.Sched.Exhausted || (unfinished && len(c.Sched.Stuck) == 0 && len(c.Sched.Deadlock) == 0) {
		c.Count("budget_exhausted_unfinished")
		c.Trivial = true
		return
	}
	if false {
	}
	if len(c.Sched.Stuck) > 0 {
		c.Violate("memstore:stuck", "requests never returned: %v%s", c.Sched.Stuck, hist)
		return
	}
	part := "concurrent"
	if faults {
		part = "both"
	}
	if storeErr != nil {
		c.Infra = "GetCrew at quiescence: " + storeErr.Error()
		return
	}
	c.Count("quiescent_comparisons")
	if memFinal != storeFinal {
		c.Violate("memstore:"+part+":quiescent-memory-differs-from-store", "with all requests answered and the store healthy, memory and store differ:\n  memory %s\n  store  %s\nhistory:%s", memFinal, storeFinal, hist)
	}
	if !faults {
		var ops []porcupine.Operation
		for i, rs := range recs {
			for _, r := range rs {
				ops = append(ops, porcupine.Operation{ClientId: i, Input: r.in, Call: int64(r.inv), Output: r.out, Return: int64(r.ret)})
			}
		}
		// the final memory is one more read
		last := int64(lg.Len() + 1)
		ops = append(ops, porcupine.Operation{ClientId: nclients, Input: cwIn{kind: "getcrew"}, Call: last, Output: cwOut{snap: memFinal}, Return: last + 1})
		c.Add("history_ops", len(ops))
		switch porcupine.CheckOperationsTimeout(cwModel, ops, 30*time.Second) {
		case porcupine.Illegal:
			var desc []string
			sort.Slice(ops, func(i, j int) bool { return ops[i].Call < ops[j].Call })
			kinds := map[string]bool{}
			for _, op := range ops {
				desc = append(desc, fmt.Sprintf("[%d,%d] client%d %s", op.Call, op.Return, op.ClientId, cwModel.DescribeOperation(op.Input, op.Output)))
				kinds[op.Input.(cwIn).kind] = true
			}
			c.Violate("linearizability:"+strings.Join(svSortedKeys(kinds), "+"), "the outcome of the concurrent requests equals no sequential order of them:\n  %s", strings.Join(desc, "\n  "))
		case porcupine.Unknown:
			c.Count("porcupine_unknown")
		default:
			c.Count("histories_linearizable")
		}
	}
	c.Add("steps_with_choice", c.Sched.Switches)
	c.Path = fmt.Sprintf("%d|%016x", seq, c.Sched.Hash)
	c.Trivial = c.Sched.Switches == 0
	c.Sample = map[string]interface{}{"history": hist, "memory": memFinal}
}
