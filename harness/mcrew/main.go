//go:build verif_sim

package main

import (
	"io"
	"log"
	"testing"

	"verif/sim"
)

var verifRegistry = sim.Registry{}

func TestSim(t *testing.T) {
	log.SetOutput(io.Discard)
	Verbose = false
	sim.Main(t, verifRegistry)
}
