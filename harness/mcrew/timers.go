//go:build verif_sim

package main

// C17 (mcrew half): cmd/mcrew.Timers driven directly, as Service.toTimers
// drives it, under the serial scheduler with the simulated clock.

import (
	"context"
	"encoding/json"
	"fmt"
	"sort"
	"strings"
	"testing"
	"time"

	"github.com/anishathalye/porcupine"

	"verif/sim"
)

func init() {
	verifRegistry["C17/mcrew-timers"] = runC17McrewTimers
}

type tmOp struct {
	kind    string // add | rem | sleep
	id      string
	d       time.Duration
	payload string
}

// what the handler of a firing message does, per payload
type tmHandler struct {
	kind    string // "" | readd | rem-self | rem-other | add-other
	id      string
	d       time.Duration
	payload string
}

var tmDelays = []time.Duration{time.Millisecond, 5 * time.Millisecond, 20 * time.Millisecond, time.Second, time.Hour}
var tmSleeps = []time.Duration{time.Millisecond, 4 * time.Millisecond, 20 * time.Millisecond, 500 * time.Millisecond, time.Second}

func runC17McrewTimers(c *sim.Ctx, t *testing.T) {
	// ---- generate the workload (root, before the bubble)
	ids := []string{"a", "b", "c"}[:1+c.Intn(3, "nids")]
	nreq := 1 + c.Intn(3, "nreq")
	npay := 0
	newPayload := func() string { npay++; return fmt.Sprintf("p%d", npay) }
	handlers := map[string]tmHandler{}
	genHandler := func(id, payload string, depth int) {
		if depth > 1 || !c.Chance(1, 3, "handler") {
			return
		}
		h := tmHandler{}
		switch c.Intn(5, "hkind") {
		case 0, 1:
			h = tmHandler{kind: "readd", id: id, d: tmDelays[c.Intn(3, "hd")], payload: newPayload()}
		case 2:
			h = tmHandler{kind: "rem-self", id: id}
		case 3:
			h = tmHandler{kind: "rem-other", id: ids[c.Intn(len(ids), "hid")]}
		case 4:
			h = tmHandler{kind: "observe"}
		}
		handlers[payload] = h
	}
	plans := make([][]tmOp, nreq)
	for r := range plans {
		nops := 1 + c.Intn(5, "nops")
		for i := 0; i < nops; i++ {
			switch c.Intn(7, "op") {
			case 6:
				plans[r] = append(plans[r], tmOp{kind: "observe"})
			case 0, 1, 2:
				op := tmOp{kind: "add", id: ids[c.Intn(len(ids), "id")], d: tmDelays[c.Intn(len(tmDelays), "d")], payload: newPayload()}
				genHandler(op.id, op.payload, 0)
				plans[r] = append(plans[r], op)
			case 3, 4:
				plans[r] = append(plans[r], tmOp{kind: "rem", id: ids[c.Intn(len(ids), "id")]})
			case 5:
				plans[r] = append(plans[r], tmOp{kind: "sleep", d: tmSleeps[c.Intn(len(tmSleeps), "sl")]})
			}
		}
	}
	masks := []int{0, 0, sim.MaskEntry, sim.MaskChan, sim.MaskUnlock | sim.MaskGo, sim.MaskEntry | sim.MaskGo}
	mask := masks[c.Intn(len(masks), "mask")]
	stallW := c.Intn(3, "stallw")

	var (
		lg      *sim.Log
		ts      *Timers
	)
	leak := sim.Bubble(c, t, func(s *sim.Sched) {
		s.Horizon = 3 * time.Hour
		s.MaxSteps = 3000
		s.Stalls = tmSleeps
		s.StallW = stallW
		s.YieldMask = mask
		lg = sim.NewLog()
		ctx, cancel := context.WithCancel(context.Background())
		// observe asks the implementation which timers it reports as pending
		// (the JSON rendering the service exposes), from task context.
		observe := func() {
			lg.Add(sim.Ev{Kind: "obs.inv"})
			js, err := ts.MarshalJSON()
			var m struct {
				Map map[string]interface{} `json:"map"`
			}
			if err == nil {
				err = json.Unmarshal(js, &m)
			}
			var got []string
			for id := range m.Map {
				got = append(got, id)
			}
			sort.Strings(got)
			lg.Add(sim.Ev{Kind: "obs.ret", Val: strings.Join(got, ","), Err: errStr(err)})
		}
		var emitter Emitter = func(ctx context.Context, msg interface{}) error {
			p, _ := msg.(string)
			lg.Add(sim.Ev{Kind: "fire", Val: p})
			if h, ok := handlers[p]; ok {
				switch h.kind {
				case "readd":
					lg.Add(sim.Ev{Kind: "add.inv", Id: h.id, Val: h.payload, N: int64(h.d), Ok: true})
					err := ts.Add(ctx, h.id, h.payload, h.d)
					lg.Add(sim.Ev{Kind: "add.ret", Id: h.id, Val: h.payload, Err: errStr(err)})
				case "rem-self", "rem-other":
					lg.Add(sim.Ev{Kind: "rem.inv", Id: h.id, Ok: true})
					err := ts.Rem(ctx, h.id)
					lg.Add(sim.Ev{Kind: "rem.ret", Id: h.id, Err: errStr(err)})
				case "observe":
					observe()
				}
			}
			lg.Add(sim.Ev{Kind: "fire.done", Val: p})
			return nil
		}
		ts = NewTimers(emitter)
		for r := range plans {
			plan := plans[r]
			s.Go(fmt.Sprintf("req%d", r), func(tk *sim.Task) {
				for _, op := range plan {
					switch op.kind {
					case "add":
						lg.Add(sim.Ev{Kind: "add.inv", Id: op.id, Val: op.payload, N: int64(op.d)})
						err := ts.Add(ctx, op.id, op.payload, op.d)
						lg.Add(sim.Ev{Kind: "add.ret", Id: op.id, Val: op.payload, Err: errStr(err)})
					case "rem":
						lg.Add(sim.Ev{Kind: "rem.inv", Id: op.id})
						err := ts.Rem(ctx, op.id)
						lg.Add(sim.Ev{Kind: "rem.ret", Id: op.id, Err: errStr(err)})
					case "sleep":
						sim.Sleep(op.d)
					case "observe":
						observe()
					}
				}
			})
		}
		// the observer looks once more after every due time has passed
		s.Go("observer", func(tk *sim.Task) {
			sim.Sleep(s.Horizon - time.Minute)
			observe()
		})
		s.Run()
		cancel()
		s.Drain(400)
	})
	c.SimTime = c.Sched.SimTime
	evs := lg.Events()
	for _, e := range evs {
		c.MixHash(fmt.Sprintf("%d %s %s %s %s %s %d %v", e.Seq, e.Task, e.Kind, e.Id, e.Val, e.Err, e.N, e.At))
		c.Logf("ev %d t=%v %-8s %-9s id=%s val=%s d=%v err=%s", e.Seq, e.At, e.Task, e.Kind, e.Id, e.Val, time.Duration(e.N), e.Err)
	}
	if lg.Overflowed() {
		c.Infra = "log overflow"
		return
	}
	if c.Sched.Exhausted {
		c.Count("step_budget_exhausted")
	}
	if leak != "" {
		c.Violate("timer:mcrew:leak", "goroutines left blocked after context cancellation: %s", leak)
	}
	if len(c.Sched.Deadlock) > 0 {
		c.Violate("deadlock:"+siteFuncs(c.Sched.Deadlock), "tasks blocked on locks forever: %v", c.Sched.Deadlock)
	}
	if len(c.Sched.Stuck) > 0 && !c.Sched.Exhausted {
		c.Violate("timer:mcrew:stuck", "requests never returned: %v", c.Sched.Stuck)
	}
	tmCheckHistory(c, "mcrew", evs, !c.Sched.Exhausted)
	nfire, ncancel := 0, 0
	shape := ""
	for _, e := range evs {
		switch {
		case e.Kind == "fire":
			nfire++
		case e.Kind == "rem.ret" && e.Err == "":
			ncancel++
		}
		shape += e.Kind[:1] + e.Id + e.Err[:min1(len(e.Err), 2)] + "."
	}
	c.Add("fired", nfire)
	c.Add("cancelled", ncancel)
	c.Add("steps_with_choice", c.Sched.Switches)
	c.Add("stalls", c.Sched.Stalled)
	c.Path = fmt.Sprintf("%s|%016x", shape, c.Sched.Hash)
	c.Trivial = nfire+ncancel == 0 || c.Sched.Switches == 0
	c.Sample = map[string]interface{}{"plans": fmt.Sprint(plans), "handlers": fmt.Sprint(handlers), "events": len(evs)}
}

func errStr(err error) string {
	if err == nil {
		return ""
	}
	return err.Error()
}

func siteFuncs(sites []string) string {
	seen := map[string]bool{}
	var out []string
	for _, s := range sites {
		if i := strings.Index(s, "@"); i >= 0 {
			s = s[i+1:]
		}
		if i := strings.Index(s, "#"); i >= 0 {
			s = s[:i]
		}
		if !seen[s] {
			seen[s] = true
			out = append(out, s)
		}
	}
	sort.Strings(out)
	return strings.Join(out, ",")
}

func tmInFlight(evs []sim.Ev) bool {
	open := map[string]int{}
	for _, e := range evs {
		switch {
		case strings.HasSuffix(e.Kind, ".inv"):
			open[e.Task]++
		case strings.HasSuffix(e.Kind, ".ret"):
			open[e.Task]--
		case e.Kind == "fire":
			open[e.Task+"/fire"]++
		case e.Kind == "fire.done":
			open[e.Task+"/fire"]--
		}
	}
	for _, v := range open {
		if v != 0 {
			return true
		}
	}
	return false
}

// tmPending folds a history without in-flight operations into the set of ids
// that are accepted and neither fired nor cancelled.  (Only used when the
// history so far is sequentially consistent; the linearizability check judges
// everything else.)
func tmPending(evs []sim.Ev, handlers map[string]tmHandler) []string {
	pend := map[string]string{} // id -> payload
	byPayload := map[string]string{}
	for _, e := range evs {
		switch e.Kind {
		case "add.inv":
			byPayload[e.Val] = e.Id
		case "add.ret":
			if e.Err == "" {
				pend[e.Id] = e.Val
			}
		case "rem.ret":
			if e.Err == "" {
				delete(pend, e.Id)
			}
		case "fire":
			id := byPayload[e.Val]
			if pend[id] == e.Val {
				delete(pend, id)
			}
		}
	}
	var out []string
	for id := range pend {
		out = append(out, id)
	}
	sort.Strings(out)
	return out
}

// ---- timers as a linearizable object per id (DESIGN.md Appendix B) ---------

type tmIn struct {
	kind    string // make | cancel | fire
	payload string
	d       time.Duration
	invAt   time.Duration
}

type tmOut struct {
	res    string // ok | exists | notfound
	fireAt time.Duration
}

type tmState struct {
	pending bool
	payload string
	due     time.Duration
}

var tmModel = porcupine.Model{
	Init: func() interface{} { return tmState{} },
	Step: func(st, in, out interface{}) (bool, interface{}) {
		s := st.(tmState)
		i := in.(tmIn)
		o := out.(tmOut)
		switch i.kind {
		case "make":
			switch o.res {
			case "ok":
				if s.pending {
					return false, s
				}
				return true, tmState{true, i.payload, i.invAt + i.d}
			case "exists":
				return s.pending, s
			}
		case "cancel":
			switch o.res {
			case "ok":
				if !s.pending {
					return false, s
				}
				return true, tmState{}
			case "notfound":
				return !s.pending, s
			}
		case "observe":
			return (o.res == "present") == s.pending, s
		case "fire":
			if !s.pending || s.payload != i.payload || o.fireAt < s.due {
				return false, s
			}
			return true, tmState{}
		}
		return false, s
	},
	DescribeOperation: func(in, out interface{}) string {
		i := in.(tmIn)
		o := out.(tmOut)
		switch i.kind {
		case "make":
			return fmt.Sprintf("make(%s,%v)@%v->%s", i.payload, i.d, i.invAt, o.res)
		case "cancel":
			return fmt.Sprintf("cancel->%s", o.res)
		case "observe":
			return fmt.Sprintf("reported-pending->%s", o.res)
		}
		return fmt.Sprintf("fire(%s)@%v", i.payload, o.fireAt)
	},
}

// tmCheckHistory checks the recorded history of one timers implementation.
// complete = the run reached its horizon (every due time has passed and all
// requests returned), so exactly-once can be asserted.
func tmCheckHistory(c *sim.Ctx, host string, evs []sim.Ev, complete bool) {
	type open struct {
		in  tmIn
		seq int
	}
	byId := map[string][]porcupine.Operation{}
	pending := map[string]*open{} // task -> open op
	idOf := map[string]string{}   // payload -> id
	dOf := map[string]time.Duration{}
	invAtOf := map[string]time.Duration{}
	accepted := map[string]bool{}
	fires := map[string]int{}
	type obsRec struct {
		inv, ret int
		task     string
		set      string
	}
	var obs []obsRec
	client := map[string]int{}
	cid := func(task string) int {
		if _, ok := client[task]; !ok {
			client[task] = len(client)
		}
		return client[task]
	}
	for _, e := range evs {
		switch e.Kind {
		case "add.inv":
			idOf[e.Val] = e.Id
			dOf[e.Val] = time.Duration(e.N)
			invAtOf[e.Val] = e.At
			pending[e.Task+"/op"] = &open{tmIn{"make", e.Val, time.Duration(e.N), e.At}, e.Seq}
		case "add.ret":
			o := pending[e.Task+"/op"]
			delete(pending, e.Task+"/op")
			res := "ok"
			switch {
			case e.Err == "":
				accepted[e.Val] = true
			case strings.Contains(e.Err, "exists"):
				res = "exists"
			default:
				c.Violate("timer:"+host+":make-error", "make(%s) returned unexpected error %q", e.Val, e.Err)
				continue
			}
			byId[e.Id] = append(byId[e.Id], porcupine.Operation{ClientId: cid(e.Task), Input: o.in, Call: int64(2 * o.seq), Output: tmOut{res: res}, Return: int64(2 * e.Seq)})
		case "rem.inv":
			pending[e.Task+"/op"] = &open{tmIn{kind: "cancel"}, e.Seq}
		case "rem.ret":
			o := pending[e.Task+"/op"]
			delete(pending, e.Task+"/op")
			res := "ok"
			switch {
			case e.Err == "":
			case strings.Contains(e.Err, "not found"), strings.Contains(e.Err, "doesn't exist"):
				res = "notfound"
			default:
				c.Violate("timer:"+host+":cancel-error", "cancel(%s) returned unexpected error %q", e.Id, e.Err)
				continue
			}
			byId[e.Id] = append(byId[e.Id], porcupine.Operation{ClientId: cid(e.Task), Input: o.in, Call: int64(2 * o.seq), Output: tmOut{res: res}, Return: int64(2 * e.Seq)})
		case "obs.inv":
			pending[e.Task+"/obs"] = &open{tmIn{kind: "observe"}, e.Seq}
		case "obs.ret":
			o := pending[e.Task+"/obs"]
			delete(pending, e.Task+"/obs")
			if e.Err != "" {
				c.Violate("timer:"+host+":observe-error", "reading the pending timers failed: %s", e.Err)
				continue
			}
			c.Count("pending_set_observations")
			obs = append(obs, obsRec{o.seq, e.Seq, e.Task, "," + e.Val + ","})
		case "fire":
			id, ok := idOf[e.Val]
			if !ok {
				c.Violate("timer:"+host+":fire:unknown", "fired an unknown payload %q", e.Val)
				continue
			}
			fires[e.Val]++
			if fires[e.Val] > 1 {
				c.Violate("timer:"+host+":fire:twice", "timer %s (payload %s) fired %d times", id, e.Val, fires[e.Val])
			}
			due := invAtOf[e.Val] + dOf[e.Val]
			if e.At < due {
				c.Violate("timer:"+host+":fire:early", "timer %s (payload %s) fired at %v, before its due time %v", id, e.Val, e.At, due)
			}
			// the firing may take effect anywhere between the moment the clock
			// reached the due time and the entry into the handler
			call := 2 * e.Seq
			for _, x := range evs {
				if x.At >= due && x.Seq <= e.Seq {
					call = 2*x.Seq - 1
					break
				}
			}
			byId[id] = append(byId[id], porcupine.Operation{ClientId: 1000 + cid(e.Task+e.Val), Input: tmIn{kind: "fire", payload: e.Val}, Call: int64(call), Output: tmOut{fireAt: e.At}, Return: int64(2 * e.Seq)})
		}
	}
	// requests in flight when the run ended cannot be judged
	openOps := len(pending)
	ids := make([]string, 0, len(byId))
	for id := range byId {
		ids = append(ids, id)
	}
	sort.Strings(ids)
	// an observation of the reported pending set is a read of every id
	for _, ob := range obs {
		for _, id := range ids {
			res := "absent"
			if strings.Contains(ob.set, ","+id+",") {
				res = "present"
			}
			byId[id] = append(byId[id], porcupine.Operation{ClientId: cid(ob.task), Input: tmIn{kind: "observe"}, Call: int64(2 * ob.inv), Output: tmOut{res: res}, Return: int64(2 * ob.ret)})
		}
		for _, id := range strings.Split(strings.Trim(ob.set, ","), ",") {
			if id != "" && byId[id] == nil {
				c.Violate("timer:"+host+":observe:unknown", "the pending set reports id %q that was never requested", id)
			}
		}
	}
	for _, id := range ids {
		ops := byId[id]
		c.Add("history_ops", len(ops))
		if len(ops) > 14 {
			c.Count("history_too_long")
			continue
		}
		res := porcupine.CheckOperationsTimeout(tmModel, ops, 20*time.Second)
		switch res {
		case porcupine.Illegal:
			var desc []string
			kinds := map[string]bool{}
			sort.Slice(ops, func(i, j int) bool { return ops[i].Call < ops[j].Call })
			for _, op := range ops {
				desc = append(desc, fmt.Sprintf("[%d,%d] %s", op.Call, op.Return, tmModel.DescribeOperation(op.Input, op.Output)))
				i := op.Input.(tmIn)
				o := op.Output.(tmOut)
				kinds[i.kind+"-"+o.res] = true
			}
			c.Violate("timer:"+host+":not-linearizable:"+tmClassify(ops), "history of timer id %q is not linearizable as a timer (make/cancel/fire):\n  %s", id, strings.Join(desc, "\n  "))
		case porcupine.Unknown:
			c.Count("porcupine_unknown")
		default:
			c.Count("histories_linearizable")
		}
	}
	if complete && openOps == 0 {
		for p := range accepted {
			id := idOf[p]
			_ = id
		}
		// exactly once: every accepted timer fired or was cancelled
		for _, id := range ids {
			acc, gone := 0, 0
			for _, op := range byId[id] {
				i := op.Input.(tmIn)
				o := op.Output.(tmOut)
				switch {
				case i.kind == "observe":
				case i.kind == "make" && o.res == "ok":
					acc++
				case i.kind == "cancel" && o.res == "ok", i.kind == "fire":
					gone++
				}
			}
			if acc > gone {
				c.Violate("timer:"+host+":lost", "timer id %q: %d accepted but only %d fired or cancelled by the time every due time had passed", id, acc, gone)
			}
		}
	}
}

// tmClassify names the smallest recognisable illegal pattern, for the
// violation signature.
func tmClassify(ops []porcupine.Operation) string {
	// sequential scan in order of return: report the first operation that is
	// illegal for the state reached by the operations that returned before it
	sorted := append([]porcupine.Operation{}, ops...)
	sort.Slice(sorted, func(i, j int) bool { return sorted[i].Return < sorted[j].Return })
	st := tmModel.Init()
	for _, op := range sorted {
		ok, ns := tmModel.Step(st, op.Input, op.Output)
		if !ok {
			i := op.Input.(tmIn)
			o := op.Output.(tmOut)
			s := st.(tmState)
			state := "none"
			if s.pending {
				state = "pending"
			}
			res := o.res
			if i.kind == "fire" {
				res = "fired"
			}
			return i.kind + "-" + res + "-while-" + state
		}
		st = ns
	}
	return "interleaving"
}

func min1(a, b int) int {
	if a < b {
		return a
	}
	return b
}
