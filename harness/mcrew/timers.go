//go:build verif_sim

package main

// C17 (mcrew half): cmd/mcrew.Timers driven directly, as Service.toTimers
// drives it, under the serial scheduler with the simulated clock.

import (
	"context"
	"encoding/json"
	"fmt"
	"sort"
	"strings"
	"testing"
	"time"

	"verif/sim"
	"verif/tmodel"
)

func init() {
	verifRegistry["C17/mcrew-timers"] = runC17McrewTimers
}

type tmOp struct {
	kind    string // add | rem | sleep
	id      string
	d       time.Duration
	payload string
}

// what the handler of a firing message does, per payload
type tmHandler struct {
	kind    string // "" | readd | rem-self | rem-other | add-other
	id      string
	d       time.Duration
	payload string
}

var tmDelays = []time.Duration{time.Millisecond, 5 * time.Millisecond, 20 * time.Millisecond, time.Second, time.Hour, 0, -time.Millisecond} // (also due at once, and overdue)
var tmSleeps = []time.Duration{time.Millisecond, 4 * time.Millisecond, 20 * time.Millisecond, 500 * time.Millisecond, time.Second}

func runC17McrewTimers(c *sim.Ctx, t *testing.T) {
	// ---- generate the workload (root, before the bubble)
	ids := []string{"a", "b", "c"}[:1+c.Intn(3, "nids")]
	nreq := 1 + c.Intn(3, "nreq")
	npay := 0
	newPayload := func() string { npay++; return fmt.Sprintf("p%d", npay) }
	handlers := map[string]tmHandler{}
	failing := map[string]bool{} // payloads for which the emitter reports an error after delivering
	genHandler := func(id, payload string, depth int) {
		if depth > 1 || !c.Chance(1, 3, "handler") {
			return
		}
		h := tmHandler{}
		switch c.Intn(5, "hkind") {
		case 0, 1:
			h = tmHandler{kind: "readd", id: id, d: tmDelays[c.Intn(3, "hd")], payload: newPayload()}
		case 2:
			h = tmHandler{kind: "rem-self", id: id}
		case 3:
			h = tmHandler{kind: "rem-other", id: ids[c.Intn(len(ids), "hid")]}
		case 4:
			h = tmHandler{kind: "observe"}
		}
		handlers[payload] = h
	}
	plans := make([][]tmOp, nreq)
	ctxIds := make([]string, nreq)
	for r := range plans {
		nops := 1 + c.Intn(5, "nops")
		for i := 0; i < nops; i++ {
			switch c.Intn(8, "op") {
			case 7:
				// a timer made on behalf of a request whose context ends while the timer is
				// pending (a little later, or just as it falls due): that stops the timer, as a
				// cancel does - it may fire or not, and is not pending afterwards.  The id is this
				// request's own, so the stop cannot be mistaken for one of another timer.
				if ctxIds[r] == "" {
					ctxIds[r] = fmt.Sprintf("x%d", r)
					op := tmOp{kind: "addctx", id: ctxIds[r], d: tmDelays[c.Intn(len(tmDelays), "d")], payload: newPayload()}
					wait := tmSleeps[c.Intn(len(tmSleeps), "sl")]
					if c.Bool("cancel-when-due") && op.d < time.Hour {
						wait = op.d
					}
					plans[r] = append(plans[r], op, tmOp{kind: "sleep", d: wait}, tmOp{kind: "cancelctx", id: ctxIds[r]})
				}
			case 6:
				plans[r] = append(plans[r], tmOp{kind: "observe"})
			case 0, 1, 2:
				op := tmOp{kind: "add", id: ids[c.Intn(len(ids), "id")], d: tmDelays[c.Intn(len(tmDelays), "d")], payload: newPayload()}
				if c.Chance(1, 6, "emitfails") {
					failing[op.payload] = true
				}
				genHandler(op.id, op.payload, 0)
				plans[r] = append(plans[r], op)
			case 3, 4:
				plans[r] = append(plans[r], tmOp{kind: "rem", id: ids[c.Intn(len(ids), "id")]})
			case 5:
				plans[r] = append(plans[r], tmOp{kind: "sleep", d: tmSleeps[c.Intn(len(tmSleeps), "sl")]})
			}
		}
	}
	masks := []int{0, 0, sim.MaskEntry, sim.MaskUnlock, sim.MaskUnlock | sim.MaskGo, sim.MaskEntry | sim.MaskGo}
	mask := masks[c.Intn(len(masks), "mask")]
	stallW := c.Intn(3, "stallw")

	var (
		lg *sim.Log
		ts *Timers
	)
	leak := sim.Bubble(c, t, func(s *sim.Sched) {
		s.Horizon = 3 * time.Hour
		s.MaxSteps = 3000
		s.Stalls = tmSleeps
		s.StallW = stallW
		s.YieldMask = mask
		lg = sim.NewLog()
		ctx, cancel := context.WithCancel(context.Background())
		// observe asks the implementation which timers it reports as pending
		// (the JSON rendering the service exposes), from task context.
		observe := func() {
			lg.Add(sim.Ev{Kind: "obs.inv"})
			js, err := ts.MarshalJSON()
			var m struct {
				Map map[string]interface{} `json:"map"`
			}
			if err == nil {
				err = json.Unmarshal(js, &m)
			}
			var got []string
			for id := range m.Map {
				got = append(got, id)
			}
			sort.Strings(got)
			lg.Add(sim.Ev{Kind: "obs.ret", Val: strings.Join(got, ","), Err: errStr(err)})
		}
		var emitter Emitter = func(ctx context.Context, msg interface{}) error {
			p, _ := msg.(string)
			lg.Add(sim.Ev{Kind: "fire", Val: p})
			if h, ok := handlers[p]; ok {
				switch h.kind {
				case "readd":
					lg.Add(sim.Ev{Kind: "add.inv", Id: h.id, Val: h.payload, N: int64(h.d), Ok: true})
					err := ts.Add(ctx, h.id, h.payload, h.d)
					lg.Add(sim.Ev{Kind: "add.ret", Id: h.id, Val: h.payload, Err: errStr(err)})
				case "rem-self", "rem-other":
					lg.Add(sim.Ev{Kind: "rem.inv", Id: h.id, Ok: true})
					err := ts.Rem(ctx, h.id)
					lg.Add(sim.Ev{Kind: "rem.ret", Id: h.id, Err: errStr(err)})
				case "observe":
					observe()
				}
			}
			lg.Add(sim.Ev{Kind: "fire.done", Val: p})
			if failing[p] {
				return fmt.Errorf("the service could not process %s", p)
			}
			return nil
		}
		ts = NewTimers(emitter)
		for r := range plans {
			plan := plans[r]
			s.Go(fmt.Sprintf("req%d", r), func(tk *sim.Task) {
				var endRequest context.CancelFunc
				for _, op := range plan {
					switch op.kind {
					case "addctx":
						var rctx context.Context
						rctx, endRequest = context.WithCancel(ctx)
						lg.Add(sim.Ev{Kind: "add.inv", Id: op.id, Val: op.payload, N: int64(op.d)})
						err := ts.Add(rctx, op.id, op.payload, op.d)
						lg.Add(sim.Ev{Kind: "add.ret", Id: op.id, Val: op.payload, Err: errStr(err)})
					case "cancelctx":
						lg.Add(sim.Ev{Task: "ctx-" + op.id, Kind: "rem.inv", Id: op.id})
						endRequest()
					case "add":
						lg.Add(sim.Ev{Kind: "add.inv", Id: op.id, Val: op.payload, N: int64(op.d)})
						err := ts.Add(ctx, op.id, op.payload, op.d)
						lg.Add(sim.Ev{Kind: "add.ret", Id: op.id, Val: op.payload, Err: errStr(err)})
					case "rem":
						lg.Add(sim.Ev{Kind: "rem.inv", Id: op.id})
						err := ts.Rem(ctx, op.id)
						lg.Add(sim.Ev{Kind: "rem.ret", Id: op.id, Err: errStr(err)})
					case "sleep":
						sim.Sleep(op.d)
					case "observe":
						observe()
					}
				}
			})
		}
		// the observer looks once more after every due time has passed
		s.Go("observer", func(tk *sim.Task) {
			sim.Sleep(s.Horizon - time.Minute)
			for _, id := range ctxIds {
				if id != "" {
					// by now the stop has long taken effect (or found nothing to stop)
					lg.Add(sim.Ev{Task: "ctx-" + id, Kind: "rem.ret", Id: id, Err: "?"})
				}
			}
			observe()
		})
		s.Run()
		cancel()
		s.Drain(400)
	})
	c.SimTime = c.Sched.SimTime
	evs := lg.Events()
	for _, e := range evs {
		c.MixHash(fmt.Sprintf("%d %s %s %s %s %s %d %v", e.Seq, e.Task, e.Kind, e.Id, e.Val, e.Err, e.N, e.At))
		c.Logf("ev %d t=%v %-8s %-9s id=%s val=%s d=%v err=%s", e.Seq, e.At, e.Task, e.Kind, e.Id, e.Val, time.Duration(e.N), e.Err)
	}
	if lg.Overflowed() {
		c.Infra = "log overflow"
		return
	}
	if c.Sched.Exhausted {
		c.Count("step_budget_exhausted")
	}
	if leak != "" {
		c.Violate("timer:mcrew:leak", "goroutines left blocked after context cancellation: %s", leak)
	}
	if len(c.Sched.Deadlock) > 0 {
		c.Violate("deadlock:"+siteFuncs(c.Sched.Deadlock), "tasks blocked on locks forever: %v", c.Sched.Deadlock)
	}
	if len(c.Sched.Stuck) > 0 && !c.Sched.Exhausted {
		c.Violate("timer:mcrew:stuck", "requests never returned: %v", c.Sched.Stuck)
	}
	tmodel.CheckHistory(c, "mcrew", evs, !c.Sched.Exhausted)
	nfire, ncancel := 0, 0
	shape := ""
	for _, e := range evs {
		switch {
		case e.Kind == "fire":
			nfire++
		case e.Kind == "rem.ret" && e.Err == "":
			ncancel++
		}
		shape += e.Kind[:1] + e.Id + e.Err[:min1(len(e.Err), 2)] + "."
	}
	c.Add("fired", nfire)
	c.Add("cancelled", ncancel)
	c.Add("steps_with_choice", c.Sched.Switches)
	c.Add("stalls", c.Sched.Stalled)
	c.Path = fmt.Sprintf("%s|%016x", shape, c.Sched.Hash)
	c.Trivial = nfire+ncancel == 0 || c.Sched.Switches == 0
	c.Sample = map[string]interface{}{"plans": fmt.Sprint(plans), "handlers": fmt.Sprint(handlers), "events": len(evs)}
}

func errStr(err error) string {
	if err == nil {
		return ""
	}
	return err.Error()
}

func siteFuncs(sites []string) string {
	seen := map[string]bool{}
	var out []string
	for _, s := range sites {
		if i := strings.Index(s, "@"); i >= 0 {
			s = s[i+1:]
		}
		if i := strings.Index(s, "#"); i >= 0 {
			s = s[:i]
		}
		if !seen[s] {
			seen[s] = true
			out = append(out, s)
		}
	}
	sort.Strings(out)
	return strings.Join(out, ",")
}

func tmInFlight(evs []sim.Ev) bool {
	open := map[string]int{}
	for _, e := range evs {
		switch {
		case strings.HasSuffix(e.Kind, ".inv"):
			open[e.Task]++
		case strings.HasSuffix(e.Kind, ".ret"):
			open[e.Task]--
		case e.Kind == "fire":
			open[e.Task+"/fire"]++
		case e.Kind == "fire.done":
			open[e.Task+"/fire"]--
		}
	}
	for _, v := range open {
		if v != 0 {
			return true
		}
	}
	return false
}

// tmPending folds a history without in-flight operations into the set of ids
// that are accepted and neither fired nor cancelled.  (Only used when the
// history so far is sequentially consistent; the linearizability check judges
// everything else.)
func tmPending(evs []sim.Ev, handlers map[string]tmHandler) []string {
	pend := map[string]string{} // id -> payload
	byPayload := map[string]string{}
	for _, e := range evs {
		switch e.Kind {
		case "add.inv":
			byPayload[e.Val] = e.Id
		case "add.ret":
			if e.Err == "" {
				pend[e.Id] = e.Val
			}
		case "rem.ret":
			if e.Err == "" {
				delete(pend, e.Id)
			}
		case "fire":
			id := byPayload[e.Val]
			if pend[id] == e.Val {
				delete(pend, id)
			}
		}
	}
	var out []string
	for id := range pend {
		out = append(out, id)
	}
	sort.Strings(out)
	return out
}

func min1(a, b int) int {
	if a < b {
		return a
	}
	return b
}
