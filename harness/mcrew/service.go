//go:build verif_sim

package main

// Engine V: the mcrew Service on a real bbolt store (tmpfs), recorder machines
// loaded from a spec file, clients and the service's own asynchronous
// re-processing goroutines under the serial scheduler.

import (
	"context"
	"encoding/json"
	"fmt"
	"os"
	"path/filepath"
	"sort"
	"strings"
	"sync/atomic"
	"testing"
	"time"

	"github.com/Comcast/sheens/core"
	"github.com/Comcast/sheens/match"

	"verif/ref"
	"verif/sim"
)

func init() {
	verifRegistry["C14/mcrew"] = runC14Mcrew
}

const svRecorderYAML = `{
 "name": "recorder",
 "actionerrorbranches": true,
 "nodes": {
  "start": {"branching": {"type": "message", "branches": [{"pattern": "?m", "target": "rec"}]}},
  "rec": {
   "action": {"interpreter": "ecmascript", "source": %s},
   "branching": {"type": "bindings", "branches": [{"pattern": {"actionError": "?e"}, "target": "cleanup"}, {"target": "start"}]}
  },
  "cleanup": {
   "action": {"interpreter": "ecmascript", "source": "return {\"log\": _.bindings.log || []};"},
   "branching": {"type": "bindings", "branches": [{"target": "start"}]}
  }
 }
}
`

const svRecorderJS = `
var bs = _.bindings;
var m = bs["?m"];
var mid = _.props.mid;
var log = bs.log || [];
var marks = bs.marks || [{"n": 0}];
if (m && typeof m === "object") {
  log.push(m.id === undefined ? null : m.id);
  marks[0].n = marks[0].n + 1; // an object inside an array, updated in place
  if (m.nan && m.nan[mid]) { return {"log": log, "marks": marks, "bad": 0/0}; }
  var emits = (m.emit && m.emit[mid]) || [];
  for (var i = 0; i < emits.length; i++) { _.out(emits[i]); }
}
return {"log": log, "marks": marks};
`

var svRunSeq int64

// svDir creates the per-run directory with the spec file(s).
func svDir() (string, error) {
	base := os.Getenv("VERIF_SCRATCH")
	if base == "" {
		base = os.TempDir()
	}
	d := filepath.Join(base, fmt.Sprintf("run%d", atomic.AddInt64(&svRunSeq, 1)))
	if err := os.MkdirAll(filepath.Join(d, "specs"), 0o755); err != nil {
		return "", err
	}
	src, _ := json.Marshal(svRecorderJS)
	if err := os.WriteFile(filepath.Join(d, "specs", "recorder.yaml"), []byte(fmt.Sprintf(svRecorderYAML, src)), 0o644); err != nil {
		return "", err
	}
	// the same recorder under two more names, each with a parameter of its own that has a
	// default (what an add request without initial bindings for it gets)
	for name, param := range map[string]string{"recorderp1": `"limit": {"primitiveType": "int", "default": 3}`, "recorderp2": `"interval": {"primitiveType": "string", "default": "1s"}`} {
		y := strings.Replace(fmt.Sprintf(svRecorderYAML, src), `"name": "recorder",`, `"name": "`+name+`",`+"\n"+` "paramspecs": {`+param+`},`, 1)
		if err := os.WriteFile(filepath.Join(d, "specs", name+".yaml"), []byte(y), 0o644); err != nil {
			return "", err
		}
	}
	return d, nil
}

func svLog(bs match.Bindings) []string {
	var out []string
	lg, _ := bs["log"].([]interface{})
	for _, e := range lg {
		out = append(out, fmt.Sprint(e))
	}
	return out
}

// svMachineCanon renders a machine's state canonically.
func svStateCanon(st *core.State) string {
	if st == nil {
		return "nil"
	}
	return st.NodeName + "/" + ref.Canon(map[string]interface{}(st.Bs))
}

type svGen struct {
	c    *sim.Ctx
	mids []string
	n    int
}

func (g *svGen) id() string { g.n++; return fmt.Sprintf("m%d", g.n) }

func (g *svGen) message(hops int, allowTimer bool) map[string]interface{} {
	c := g.c
	m := map[string]interface{}{"id": g.id()}
	switch c.Intn(10, "tgtkind") {
	case 0, 1, 2, 3:
	case 4, 5, 6:
		m["to"] = g.mids[c.Intn(len(g.mids), "tgtmid")]
	case 7:
		m["to"] = "nobody"
	case 8:
		m["to"] = []string{"http", "ws"}[c.Intn(2, "svc")]
	case 9:
		if allowTimer && hops > 0 {
			inner := g.message(hops-1, false)
			return map[string]interface{}{"id": g.id(), "to": "timers", "makeTimer": map[string]interface{}{
				"id": g.id(), "in": []string{"1ms", "10ms", "1s"}[c.Intn(3, "tin")], "message": inner}}
		}
	}
	if c.Chance(1, 8, "nan") {
		// a recipient computes a state that cannot be encoded: the round's write fails
		m["nan"] = map[string]interface{}{g.mids[c.Intn(len(g.mids), "nanmid")]: true}
	}
	if hops > 0 && c.Chance(2, 3, "emits") {
		em := map[string]interface{}{}
		for _, mid := range g.mids {
			if c.Chance(1, 2, "emitter") {
				var l []interface{}
				for i := 1 + c.Intn(2, "nemit"); i > 0; i-- {
					l = append(l, g.message(hops-1, true))
				}
				em[mid] = l
			}
		}
		m["emit"] = em
	}
	return m
}

// svPredict: which machine sees which message id how often, and which messages
// are emitted (by id), for one submitted message under the documented routing
// of the mcrew host.
func svPredict(msg map[string]interface{}, mids []string, seen map[string]map[string]int, emitted map[string]int) {
	queue := []map[string]interface{}{msg}
	for len(queue) > 0 {
		m := queue[0]
		queue = queue[1:]
		id := fmt.Sprint(m["id"])
		var rcpt []string
		to, have := m["to"]
		switch {
		case !have:
			rcpt = mids
		default:
			s, _ := to.(string)
			switch s {
			case "timers":
				if mk, ok := m["makeTimer"].(map[string]interface{}); ok {
					if inner, ok := mk["message"].(map[string]interface{}); ok {
						queue = append(queue, inner) // delivered when the timer fires
					}
				}
			case "http", "ws":
			default:
				for _, x := range mids {
					if x == s {
						rcpt = []string{s}
					}
				}
			}
		}
		// if a recipient's new state cannot be encoded the round's write fails and no
		// recipient's state advances (nobody records the message); the messages the
		// other recipients emitted are still reported and fed back
		writeFails := false
		nan, _ := m["nan"].(map[string]interface{})
		for _, mid := range rcpt {
			if nan[mid] == true {
				writeFails = true
			}
		}
		for _, mid := range rcpt {
			if seen[mid] == nil {
				seen[mid] = map[string]int{}
			}
			if !writeFails {
				seen[mid][id]++
			}
			if nan[mid] == true {
				continue // returns before emitting anything
			}
			if em, ok := m["emit"].(map[string]interface{}); ok {
				if l, ok := em[mid].([]interface{}); ok {
					for _, e := range l {
						emm := e.(map[string]interface{})
						emitted[fmt.Sprint(emm["id"])]++
						queue = append(queue, emm)
					}
				}
			}
		}
	}
}

func runC14Mcrew(c *sim.Ctx, t *testing.T) {
	dir, err := svDir()
	if err != nil {
		c.Infra = err.Error()
		return
	}
	defer os.RemoveAll(dir)
	nm := 1 + c.Intn(4, "nmachines")
	var mids []string
	for i := 0; i < nm; i++ {
		mids = append(mids, fmt.Sprintf("r%d", i))
	}
	g := &svGen{c: c, mids: mids}
	nclients := 1 + c.Intn(2, "nclients")
	plans := make([][]map[string]interface{}, nclients)
	wantSeen := map[string]map[string]int{}
	wantEmitted := map[string]int{}
	for i := range plans {
		for k := 1 + c.Intn(3, "nmsgs"); k > 0; k-- {
			m := g.message(2, true)
			plans[i] = append(plans[i], m)
			svPredict(m, mids, wantSeen, wantEmitted)
		}
	}
	heavy := false
	if c.Chance(1, 12, "ticker") {
		// a machine that re-arms a 1 ms timer from the handler of each firing, for more than a
		// hundred periods (every single cascade is two messages deep)
		n := 104 + c.Intn(12, "ticks")
		mid := mids[c.Intn(nm, "tickermid")]
		var inner map[string]interface{}
		for k := n; k > 0; k-- {
			tick := map[string]interface{}{"id": g.id(), "to": mid}
			if inner != nil {
				tick["emit"] = map[string]interface{}{mid: []interface{}{inner}}
			}
			inner = map[string]interface{}{"id": g.id(), "to": "timers", "makeTimer": map[string]interface{}{"id": g.id(), "in": "1ms", "message": tick}}
		}
		plans[0] = append(plans[0], inner)
		svPredict(inner, mids, wantSeen, wantEmitted)
		heavy = true
		c.Count("tickers")
	}
	if c.Chance(1, 12, "burst") {
		// one action that emits more messages at once than any plausible queue holds
		n := 66 + c.Intn(20, "burstsize")
		from, to := mids[c.Intn(nm, "burstfrom")], mids[c.Intn(nm, "burstto")]
		var l []interface{}
		for k := 0; k < n; k++ {
			l = append(l, map[string]interface{}{"id": g.id(), "to": to})
		}
		m := map[string]interface{}{"id": g.id(), "to": from, "emit": map[string]interface{}{from: l}}
		plans[0] = append(plans[0], m)
		svPredict(m, mids, wantSeen, wantEmitted)
		heavy = true
		c.Count("bursts")
	}
	// the step limit is per-request configuration (re-injected messages inherit it);
	// a recorder needs two strides per message, so 2 makes every walk end exactly at the limit
	ctl := &core.Control{Limit: []int{2, 2, 3, 100}[c.Intn(4, "limit")]}
	var (
		final    map[string][]string
		gotEmit  = map[string]int{}
		retEmit  = map[string]int{}
		procErrs []string
	)
	unfinished := false
	rets := make([][]string, nclients) // emitted ids seen in Process return values (per client, task-local)
	leak := sim.Bubble(c, t, func(s *sim.Sched) {
		s.Horizon = 30 * time.Second
		s.MaxSteps = 12000
		if heavy {
			s.MaxSteps = 120000
		}
		ctx, cancel := context.WithCancel(context.Background())
		svc, err := NewService(ctx, filepath.Join(dir, "specs"), filepath.Join(dir, "crew.db"), "")
		if err != nil {
			c.Infra = "NewService: " + err.Error()
			cancel()
			return
		}
		svc.Emitted = make(chan interface{}, 4096)
		svc.wsClientC = make(chan interface{}, 256)
		for _, mid := range mids {
			if err := svc.AddMachine(ctx, "recorder", mid, "start", nil); err != nil {
				c.Infra = "AddMachine: " + err.Error()
				cancel()
				return
			}
		}
		for i := range plans {
			i := i
			s.Go(fmt.Sprintf("client%d", i), func(tk *sim.Task) {
				for _, m := range plans[i] {
					sim.Yield("h#submit")
					walkeds, err := svc.Process(ctx, svJSONCopy(m), ctl)
					if err != nil {
						if _, unencodable := m["nan"]; !unencodable {
							rets[i] = append(rets[i], "ERR:"+err.Error())
							continue
						}
						// the write of this round failed, as it must; the walks are still returned
					}
					for _, w := range walkeds {
						for _, st := range w.Strides {
							for _, e := range st.Emitted {
								if em, ok := e.(map[string]interface{}); ok {
									rets[i] = append(rets[i], fmt.Sprint(em["id"]))
								}
							}
						}
					}
				}
			})
		}
		s.Run()
		if !s.Quiescent() {
			// step or time budget used up with requests still in flight (a parked task
			// may hold the crew lock): nothing can be read, nothing is asserted
			unfinished = true
			cancel()
			s.Drain(800)
			return
		}
		// quiescent: read the crew through the service's own API
		final = map[string][]string{}
		for mid, m := range svc.crew.Copy().Machines {
			final[mid] = svLog(m.State.Bs)
		}
		for {
			select {
			case e := <-svc.Emitted:
				if em, ok := e.(map[string]interface{}); ok {
					gotEmit[fmt.Sprint(em["id"])]++
				}
				continue
			default:
			}
			break
		}
		cancel()
		s.Drain(800)
	})
	if c.Infra != "" {
		return
	}
	c.SimTime = c.Sched.SimTime
	for _, r := range rets {
		for _, id := range r {
			if strings.HasPrefix(id, "ERR:") {
				procErrs = append(procErrs, id)
			} else {
				retEmit[id]++
			}
		}
	}
	desc := func() string {
		b, _ := json.Marshal(plans)
		return fmt.Sprintf("crew %v, submitted (per client) %s", mids, b)
	}
	if c.Sched.Exhausted || unfinished {
		c.Count("budget_exhausted_unfinished")
		c.Trivial = true
		return
	}
	if len(procErrs) > 0 {
		c.Violate("route:mcrew:error", "Process failed: %v; %s", procErrs, desc())
		return
	}
	if len(c.Sched.Deadlock) > 0 {
		c.Violate("deadlock:"+siteFuncs(c.Sched.Deadlock), "tasks blocked on locks forever: %v", c.Sched.Deadlock)
	}
	_ = leak
	// who saw what, how often
	for _, mid := range mids {
		got := map[string]int{}
		for _, id := range final[mid] {
			got[id]++
		}
		want := wantSeen[mid]
		for id, n := range got {
			if n > want[id] {
				kind := "stray"
				if want[id] > 0 {
					kind = "dup"
				}
				c.Violate("route:mcrew:"+kind, "machine %s was presented message %s %d time(s), addressed to it %d time(s); %s", mid, id, n, want[id], desc())
				return
			}
		}
		for id, n := range want {
			if got[id] < n {
				c.Violate("route:mcrew:miss", "machine %s never processed message %s addressed to it (log %v); %s", mid, id, final[mid], desc())
				return
			}
		}
		c.Add("deliveries", len(final[mid]))
	}
	// every emitted message reported exactly once: on the Emitted channel...
	for id, n := range wantEmitted {
		if gotEmit[id] != n {
			kind := "unreported"
			if gotEmit[id] > n {
				kind = "reported-twice"
			}
			c.Violate("route:mcrew:"+kind, "emitted message %s was reported %d time(s) on the Emitted channel, emitted %d time(s); %s", id, gotEmit[id], n, desc())
			return
		}
	}
	for id, n := range gotEmit {
		if wantEmitted[id] == 0 {
			c.Violate("route:mcrew:reported-stray", "the Emitted channel reported %s (%d times), which nobody emitted; %s", id, n, desc())
			return
		}
	}
	c.Add("emitted", len(wantEmitted))
	c.Add("steps_with_choice", c.Sched.Switches)
	shape := fmt.Sprintf("%d/%d/%d/%d", nm, g.n, len(wantEmitted), ctl.Limit)
	c.MixHash(shape + fmt.Sprint(final))
	c.Path = fmt.Sprintf("%s|%016x", shape, c.Sched.Hash)
	c.Trivial = g.n < 2
	c.Sample = map[string]interface{}{"machines": mids, "clients": nclients, "messages": g.n, "emitted": len(wantEmitted)}
}

func svJSONCopy(x interface{}) interface{} {
	b, _ := json.Marshal(x)
	var y interface{}
	json.Unmarshal(b, &y)
	return y
}

func svSortedKeys(m map[string]bool) []string {
	var out []string
	for k := range m {
		out = append(out, k)
	}
	sort.Strings(out)
	return out
}
