//go:build verif_sim

package ecmascript_test

// C18: conservation of permanent ('!') bindings over every step of simulated
// histories, with failing actions and rejecting guards injected.

import (
	"context"
	"fmt"
	"math"
	"strings"
	"testing"

	"github.com/Comcast/sheens/core"

	"verif/ref"
	"verif/sim"
)

func init() { registry["C18"] = runC18 }

func runC18(c *sim.Ctx, t *testing.T) {
	sim.Install(c)
	defer sim.Uninstall()
	cfg := genCfg{native: true, stubs: true, failOps: true, nullRet: true, permanents: true, guards: true, guardEmits: true, loops: true, maxNodes: 5, inPlace: true, inPlaceAll: true, errorNode: true}
	// Fault (a sixth of the runs; programs with native code only, which ignores the context, so
	// nothing else changes): the host's context is already over while the machines are stepped.
	deadCtx := c.Chance(1, 6, "deadcontext")
	if deadCtx {
		cfg.nativeOnly = true
	}
	gs := genSpec(c, cfg)
	spec, err := compile(gs)
	if err != nil {
		c.Infra = "generated spec does not compile: " + err.Error()
		return
	}
	ctx := context.Background()
	if deadCtx {
		cctx, cancel := context.WithCancel(ctx)
		cancel()
		ctx = cctx
		c.Count("runs_under_a_cancelled_context")
	}
	if c.Chance(1, 3, "copiedspec") {
		// a host that derives a new version from a loaded spec: copy, compile, use the copy
		// (same error settings: Spec.Copy leaves them behind)
		cp := spec.Copy("2")
		cp.ActionErrorBranches, cp.ActionErrorNode, cp.NoAutoErrorNode, cp.ErrorNode = spec.ActionErrorBranches, spec.ActionErrorNode, spec.NoAutoErrorNode, spec.ErrorNode
		if err := cp.Compile(ctx, interpreters, true); err != nil {
			c.Infra = "copied spec does not compile: " + err.Error()
			return
		}
		spec = cp
		c.Count("specs_copied_and_recompiled")
	}
	// several machines share the compiled spec; they carry different sets of
	// permanent bindings (the first one none at the start)
	type machine struct {
		start ref.State
		st    *core.State
		perm  map[string]string
	}
	nmach := 1 + c.Intn(3, "nmachines")
	var machines []*machine
	for k := 0; k < nmach; k++ {
		start := genState(c, gs, cfg)
		if start.Bs == nil {
			start.Bs = map[string]interface{}{}
		}
		if c.Chance(1, 6, "manypermanents") {
			// a machine that has collected many permanent bindings over its life
			for q := 0; q < 8+c.Intn(5, "nperm"); q++ {
				start.Bs[fmt.Sprintf("cfg%d!", q)] = float64(q)
			}
		}
		if c.Chance(1, 6, "oddnames") {
			// permanent names that themselves end in "!!" or are just "!"
			start.Bs["k!!"] = "odd"
			start.Bs["wow!!"] = 2.0
			start.Bs["!"] = true
			// ... or are pattern variables (a pattern such as {"device":"?dev!"} binds one)
			start.Bs["?dev!"] = "d1"
			start.Bs["?!"] = 1.0
		}
		nanB := false
		if c.Chance(1, 8, "nanbinding") {
			// ... or that holds a value JSON cannot carry (an average over nothing)
			start.Bs["avg"] = math.NaN()
			nanB = true
		}
		if c.Chance(1, 6, "wasaterror") {
			// ... or one that has been to the error node before and still carries its diagnostics
			start.Bs["lastBindings"] = map[string]interface{}{"n": 1.0}
			start.Bs["lastNode"] = "n0"
			start.Bs["error"] = "earlier trouble"
		}
		if k == 0 && nmach > 1 {
			delete(start.Bs, "k!")
			delete(start.Bs, "p!")
		} else {
			start.Bs["k!"] = genValue(c, 0)
			if nanB {
				// with a structured permanent value a script could write into
				start.Bs["k!"] = map[string]interface{}{"q": 1.0, "hosts": []interface{}{"a", "b"}}
			}
			if c.Bool("second") {
				start.Bs["p!"] = genConst(c)
			}
		}
		m := &machine{start: start, st: toState(start), perm: map[string]string{}}
		for key, v := range start.Bs {
			if strings.HasSuffix(key, "!") {
				m.perm[key] = ref.Canon(v)
			}
		}
		machines = append(machines, m)
	}
	start := machines[len(machines)-1].start
	hist := genHistory(c, 6)
	shape := ""
	checked := 0
	for _, m := range hist {
		for _, mc := range machines {
			st, perm := mc.st, mc.perm
			var w *core.Walked
			if c.Guard("Walk", func() { w, _ = spec.Walk(ctx, st, []interface{}{m}, &core.Control{Limit: 12}, nil) }) {
				return
			}
			if w == nil {
				continue
			}
			for i, s := range w.Strides {
				if s.From == nil || s.To == nil {
					continue
				}
				r := gs.Step(fromCoreState(s.From), func() interface{} {
					if s.Consumed != nil {
						return m
					}
					return nil
				}())
				if r.Kind == ref.Unspecified && r.Class == "action-returned-null" {
					c.Count("skipped_null_return")
					// nothing is promised for this stride: start over from what is there now
					for k := range perm {
						delete(perm, k)
					}
					for k, v := range s.To.Bs {
						if strings.HasSuffix(k, "!") {
							perm[k] = ref.Canon(v)
						}
					}
					continue
				}
				if r.ActionFailed {
					c.Count("after_failed_action")
				}
				if r.ActionCompleted {
					c.Count("after_completed_action")
				}
				checked++
				// perm holds deep snapshots (canonical JSON) taken when each permanent
				// binding first appeared: From shares nested values with To, so an
				// in-place change would not show in a From/To comparison
				for k, want := range perm {
					got, have := s.To.Bs[k]
					if !have || ref.Canon(got) != want {
						what := "removed"
						if have {
							what = "altered"
						}
						c.Violate("permanent:"+what, "stride %d from %s to %s: permanent binding %q (value %s when it appeared) was %s (node %s; %d machines share the spec)\nspec: %s",
							i, stateCanon(s.From), stateCanon(s.To), k, want, what, nodeDesc(gs, s.From.NodeName), nmach, specJSON(gs))
						return
					}
				}
				for k, v := range s.To.Bs {
					if _, seen := perm[k]; !seen && strings.HasSuffix(k, "!") {
						perm[k] = ref.Canon(v)
					}
				}
				shape += r.Kind[:1]
			}
			if to := w.To(); to != nil {
				mc.st = to
			}
		}
	}
	st := machines[0].st
	c.Add("strides_checked", checked)
	c.MixHash(shape + stateCanon(st))
	c.Path = specJSON(gs) + shape + fmt.Sprint(len(hist))
	c.Trivial = checked == 0
	c.Sample = map[string]interface{}{"spec": gs, "start": start, "history": hist}
}
