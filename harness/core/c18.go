//go:build verif_sim

package ecmascript_test

// C18: conservation of permanent ('!') bindings over every step of simulated
// histories, with failing actions and rejecting guards injected.

import (
	"context"
	"fmt"
	"strings"
	"testing"

	"github.com/Comcast/sheens/core"

	"verif/ref"
	"verif/sim"
)

func init() { registry["C18"] = runC18 }

func runC18(c *sim.Ctx, t *testing.T) {
	sim.Install(c)
	defer sim.Uninstall()
	cfg := genCfg{native: true, stubs: true, failOps: true, nullRet: true, permanents: true, guards: true, guardEmits: true, loops: true, maxNodes: 5}
	gs := genSpec(c, cfg)
	spec, err := compile(gs)
	if err != nil {
		c.Infra = "generated spec does not compile: " + err.Error()
		return
	}
	ctx := context.Background()
	start := genState(c, gs, cfg)
	if start.Bs == nil {
		start.Bs = map[string]interface{}{}
	}
	// make sure permanent bindings are there to be conserved
	start.Bs["k!"] = genValue(c, 0)
	if c.Bool("second") {
		start.Bs["p!"] = genConst(c)
	}
	hist := genHistory(c, 6)
	st := toState(start)
	shape := ""
	checked := 0
	for _, m := range hist {
		var w *core.Walked
		if c.Guard("Walk", func() { w, _ = spec.Walk(ctx, st, []interface{}{m}, &core.Control{Limit: 12}, nil) }) {
			return
		}
		if w == nil {
			continue
		}
		for i, s := range w.Strides {
			if s.From == nil || s.To == nil {
				continue
			}
			r := gs.Step(fromCoreState(s.From), func() interface{} {
				if s.Consumed != nil {
					return m
				}
				return nil
			}())
			if r.Kind == ref.Unspecified && r.Class == "action-returned-null" {
				c.Count("skipped_null_return")
				continue
			}
			if r.ActionFailed {
				c.Count("after_failed_action")
			}
			if r.ActionCompleted {
				c.Count("after_completed_action")
			}
			checked++
			for k, v := range s.From.Bs {
				if !strings.HasSuffix(k, "!") {
					continue
				}
				got, have := s.To.Bs[k]
				if !have || ref.Canon(got) != ref.Canon(v) {
					what := "removed"
					if have {
						what = "altered"
					}
					c.Violate("permanent:"+what, "stride %d from %s to %s: permanent binding %q was %s (node %s)\nspec: %s",
						i, stateCanon(s.From), stateCanon(s.To), k, what, nodeDesc(gs, s.From.NodeName), specJSON(gs))
					return
				}
			}
			shape += r.Kind[:1]
		}
		if to := w.To(); to != nil {
			st = to
		}
	}
	c.Add("strides_checked", checked)
	c.MixHash(shape + stateCanon(st))
	c.Path = specJSON(gs) + shape + fmt.Sprint(len(hist))
	c.Trivial = checked == 0
	c.Sample = map[string]interface{}{"spec": gs, "start": start, "history": hist}
}
