//go:build verif_sim

package ecmascript_test

// C07: totality.  Per generated program the factor product
// {no control, control} x {nil bindings, bindings with '!' entries, ordinary}
// x {every node, an unknown node} x {no message, map message, scalar message}
// is enumerated, with the action/guard outcomes (throw, bad return,
// unserialisable emit, null, stub interpreter results) built into the program;
// plus document faults at (re)load.  Oracle: panic trap, and every injected
// failure surfaces as an error or as an error-node transition carrying the
// diagnostics.

import (
	"context"
	"encoding/json"
	"fmt"
	"strings"
	"testing"

	jyaml "github.com/jsccast/yaml"
	yaml2 "gopkg.in/yaml.v2"

	"github.com/Comcast/sheens/core"
	"github.com/Comcast/sheens/match"

	"verif/ref"
	"verif/sim"
)

func init() {
	registry["C07/process"] = runC07Process
	registry["C07/load"] = runC07Load
}

func runC07Process(c *sim.Ctx, t *testing.T) {
	// several hundred walks per run: map order is not this check's subject, and
	// permuting every range would use up the tape
	c.PermuteOff = true
	sim.Install(c)
	defer sim.Uninstall()
	cfg := genCfg{native: true, stubs: true, failOps: true, nullRet: true, permanents: true, badBranch: true, guards: true, guardEmits: true, loops: true, maxNodes: 4, multiCand: true, errorNode: true, varStrings: true}
	gs := genSpec(c, cfg)
	spec, err := compile(gs)
	if err != nil {
		c.Infra = "generated spec does not compile: " + err.Error()
		return
	}
	ctx := context.Background()
	nodes := append(nodeNames(gs), "zz", "error")
	bindings := []map[string]interface{}{nil, {"p!": 1.0, "?v": "x", "k!": map[string]interface{}{"q": 2.0}}, genBindings(c, cfg)}
	msgs := []interface{}{nil, genMessage(c), "scalar"}
	if _, isMap := msgs[1].(map[string]interface{}); !isMap {
		msgs[1] = map[string]interface{}{"a": 1.0}
	}
	controls := []*core.Control{nil, {Limit: 6}, {Limit: -1}, {Limit: 0}}
	shape := ""
	calls := 0
	for _, node := range nodes {
		for bi, bs := range bindings {
			for mi, msg := range msgs {
				for ci, ctl := range controls {
					st := ref.State{Node: node, Bs: bs}
					desc := fmt.Sprintf("node %q (%s), bindings %s, message %s, control %v", node, nodeDesc(gs, node), ref.Canon(bs), ref.Canon(msg), ctl != nil)
					var rst ref.State = st
					if rst.Bs == nil {
						rst.Bs = map[string]interface{}{}
					}
					r := gs.Step(rst, msg)
					if bs == nil && r.Class != "unknown-node" && r.Class != "bad-branching" {
						// a script handed absent bindings sees no _.bindings at all; what it
						// then does is not the reference's business - only totality is asserted
						r = ref.StepResult{Kind: ref.Unspecified, Class: "absent-bindings"}
					}
					calls++
					// Step
					var stride *core.Stride
					var serr error
					if c.Guard("Step at "+desc, func() { stride, serr = spec.Step(ctx, toState(st), ref.CopyVal(msg), ctl, nil) }) {
						c.Logf("spec: %s", specJSON(gs))
						return
					}
					if r.Kind == ref.Error && serr == nil && node != "error" {
						c.Violate("surfaced:step:"+r.Class, "Step at %s: the failure (%s) was not returned as an error (stride.To=%v)\nspec: %s", desc, r.Class, strideCanon(stride, serr), specJSON(gs))
						return
					}
					if r.Kind == ref.Specified && r.Class == "action-error-node" && serr == nil && stride != nil {
						if stride.To == nil || stride.To.NodeName != gs.ActionErrorNode || !ref.HasKeys(stride.To.Bs, "actionError") {
							c.Violate("surfaced:step:action-error-node", "Step at %s: the action failed but the result %s is not the designated action-error node with the error text\nspec: %s", desc, strideCanon(stride, serr), specJSON(gs))
							return
						}
					}
					if r.Class == "action-no-branch" && r.ActionFailed && serr == nil && stride != nil && stride.To != nil {
						// the failure was handed to the branches and none took it: the error node, and
						// the action's own error text still in the bindings (as actionError)
						if stride.To.NodeName != "error" || !ref.HasKeys(stride.To.Bs, "error", "actionError") {
							c.Violate("surfaced:step:action-error-unhandled", "Step at %s: the action failed, no branch handled that, and the result %s does not carry the action's error text\nspec: %s", desc, strideCanon(stride, serr), specJSON(gs))
							return
						}
					}
					// Walk
					var pend []interface{}
					if msg != nil {
						pend = []interface{}{ref.CopyVal(msg)}
					}
					var w *core.Walked
					var werr error
					if c.Guard("Walk at "+desc, func() { w, werr = spec.Walk(ctx, toState(st), pend, ctl, nil) }) {
						c.Logf("spec: %s", specJSON(gs))
						return
					}
					if r.Kind == ref.Error {
						c.Count("failures_" + r.Class)
					}
					if r.ActionFailed {
						c.Count("failures_action")
					}
					if r.Kind == ref.Error && werr == nil && node != "error" && (ctl == nil || ctl.Limit > 0) {
						ok := w != nil && len(w.Strides) > 0 && w.Strides[0].To != nil && w.Strides[0].To.NodeName == "error" &&
							ref.HasKeys(w.Strides[0].To.Bs, "error", "lastNode", "lastBindings")
						if ok {
							if ln, _ := w.Strides[0].To.Bs["lastNode"].(string); ln != node {
								ok = false
							}
						}
						if !ok {
							c.Violate("surfaced:walk:"+r.Class, "Walk at %s: the failure (%s) did not end at the error node with error/lastNode/lastBindings: %s\nspec: %s", desc, r.Class, walkedCanon(w), specJSON(gs))
							return
						}
					}
					shape += fmt.Sprintf("%d%d%d%s", bi, mi, ci, r.Kind[:1])
				}
			}
		}
	}
	// Host values: bindings and messages a native action or a host hands over need not be
	// decoded JSON - typed maps, typed slices, integers.  What they mean to the matcher is
	// not stated anywhere; that nothing crashes is.
	hostBs := func() match.Bindings {
		return match.Bindings{
			"n":  []interface{}{match.Bindings{"p": 1.0}, []string{"x"}, []int{1}, 2},
			"s":  match.Bindings{"p": []string{"x", "y"}},
			"f":  []string{"x"},
			"?v": []interface{}{map[string]string{"p": "x"}},
			"k!": int64(7),
		}
	}
	hostMsgs := []interface{}{nil,
		map[string]interface{}{"a": []interface{}{[]string{"x"}, match.Bindings{"p": 1.0}}, "b": []int{1, 2}, "n": []interface{}{1, map[string]int{"p": 1}}},
		map[string]interface{}{"a": match.Bindings{"p": "x"}, "s": []string{"x"}, "f": struct{ X int }{1}}}
	for _, node := range nodes {
		for mi, msg := range hostMsgs {
			desc := fmt.Sprintf("node %q (%s), host-typed bindings, host-typed message %d", node, nodeDesc(gs, node), mi)
			calls++
			if c.Guard("Step at "+desc, func() { spec.Step(ctx, &core.State{NodeName: node, Bs: hostBs()}, msg, nil, nil) }) {
				c.Logf("spec: %s", specJSON(gs))
				return
			}
			var pend []interface{}
			if msg != nil {
				pend = []interface{}{msg}
			}
			if c.Guard("Walk at "+desc, func() { spec.Walk(ctx, &core.State{NodeName: node, Bs: hostBs()}, pend, &core.Control{Limit: 6}, nil) }) {
				c.Logf("spec: %s", specJSON(gs))
				return
			}
			c.Count("calls_with_host_typed_values")
		}
	}
	c.Add("calls", 2*calls)
	c.MixHash(shape)
	c.Path = specJSON(gs)
	c.Sample = map[string]interface{}{"spec": gs, "nodes": nodes, "factor_product": fmt.Sprintf("%d nodes x 3 bindings x 3 messages x 4 controls (none, 6, -1, 0) x {Step,Walk}", len(nodes))}
}

// ---- document faults -----------------------------------------------------------

func specDoc(gs *ref.Spec) map[string]interface{} {
	nodes := map[string]interface{}{}
	act := func(a *ref.Action) interface{} {
		return map[string]interface{}{"interpreter": "ecmascript", "source": renderJS(a)}
	}
	for name, n := range gs.Nodes {
		nd := map[string]interface{}{}
		if n.Action != nil {
			nd["action"] = act(n.Action)
		}
		if n.HasBr {
			var brs []interface{}
			for _, b := range n.Branches {
				bd := map[string]interface{}{"target": b.Target}
				if b.HasPat {
					bd["pattern"] = b.Pattern
				}
				if b.Guard != nil {
					bd["guard"] = act(b.Guard)
				}
				brs = append(brs, bd)
			}
			br := map[string]interface{}{"branches": brs}
			if n.Type != "" {
				br["type"] = n.Type
			}
			nd["branching"] = br
		}
		nodes[name] = nd
	}
	doc := map[string]interface{}{"name": "gen", "nodes": nodes}
	if gs.ActionErrorBranches {
		doc["actionErrorBranches"] = true
	}
	if gs.ActionErrorNode != "" {
		doc["actionErrorNode"] = gs.ActionErrorNode
	}
	if gs.NoAutoErrorNode {
		doc["noErrorNode"] = true
	}
	return doc
}

func runC07Load(c *sim.Ctx, t *testing.T) {
	sim.Install(c)
	defer sim.Uninstall()
	cfg := genCfg{failOps: true, nullRet: true, permanents: true, guards: true, loops: true, maxNodes: 4}
	gs := genSpec(c, cfg)
	doc := specDoc(gs)
	nodes := doc["nodes"].(map[string]interface{})
	names := nodeNames(gs)
	pick := names[c.Intn(len(names), "faultnode")]
	nd, _ := nodes[pick].(map[string]interface{})
	fault := []string{"none", "null-node", "null-branching", "null-branch", "null-branches", "unknown-target", "unknown-interpreter", "unknown-branch-type",
		"unknown-pattern-syntax", "nodes-scalar", "branching-scalar", "branches-scalar", "action-scalar", "source-number", "null-action", "null-guard", "truncate",
		"pattern-string-syntax", "null-nodes", "guard-unknown-interpreter"}[c.Intn(20, "docfault")]
	ensureBranching := func() map[string]interface{} {
		br, ok := nd["branching"].(map[string]interface{})
		if !ok {
			br = map[string]interface{}{"type": "message", "branches": []interface{}{map[string]interface{}{"pattern": map[string]interface{}{"a": "?v"}, "target": names[0]}}}
			nd["branching"] = br
			delete(nd, "action")
		}
		if bs, ok := br["branches"].([]interface{}); !ok || len(bs) == 0 {
			br["branches"] = []interface{}{map[string]interface{}{"target": names[0]}}
		}
		return br
	}
	switch fault {
	case "null-node":
		nodes[pick] = nil
	case "null-branching":
		nd["branching"] = nil
	case "null-branch":
		br := ensureBranching()
		br["branches"] = append([]interface{}{nil}, br["branches"].([]interface{})...)
	case "null-branches":
		ensureBranching()["branches"] = nil
	case "unknown-target":
		ensureBranching()["branches"].([]interface{})[0].(map[string]interface{})["target"] = "missing"
	case "unknown-interpreter":
		nd["action"] = map[string]interface{}{"interpreter": "cobol", "source": "return _.bindings;"}
	case "guard-unknown-interpreter":
		ensureBranching()["branches"].([]interface{})[0].(map[string]interface{})["guard"] = map[string]interface{}{"interpreter": "cobol", "source": "x"}
	case "unknown-branch-type":
		ensureBranching()["type"] = "sideways"
	case "unknown-pattern-syntax":
		doc["patternSyntax"] = "xml"
	case "pattern-string-syntax":
		doc["patternSyntax"] = "json"
		ensureBranching()["branches"].([]interface{})[0].(map[string]interface{})["pattern"] = []string{`{"a":"?v"}`, `{"a":`, `?v`, `"?v"`}[c.Intn(4, "patstr")]
	case "nodes-scalar":
		doc["nodes"] = 5.0
	case "null-nodes":
		doc["nodes"] = nil
	case "branching-scalar":
		nd["branching"] = "message"
	case "branches-scalar":
		ensureBranching()["branches"] = "none"
	case "action-scalar":
		nd["action"] = "return _.bindings;"
	case "source-number":
		nd["action"] = map[string]interface{}{"interpreter": "ecmascript", "source": 7.0}
	case "null-action":
		nd["action"] = nil
	case "null-guard":
		ensureBranching()["branches"].([]interface{})[0].(map[string]interface{})["guard"] = nil
	}
	js, err := json.Marshal(doc)
	if err != nil {
		c.Infra = "doc marshal: " + err.Error()
		return
	}
	if fault == "truncate" {
		js = js[:1+c.Intn(len(js)-1, "cut")]
	}
	ctx := context.Background()
	loaders := []string{"json", "yaml.v2", "jsccast-yaml"}
	outcome := ""
	for _, loader := range loaders {
		var spec core.Spec
		var lerr error
		if c.Guard("load("+loader+") of "+string(js), func() {
			switch loader {
			case "json":
				lerr = json.Unmarshal(js, &spec)
			case "yaml.v2":
				lerr = yaml2.Unmarshal(js, &spec)
			case "jsccast-yaml":
				lerr = jyaml.Unmarshal(js, &spec)
			}
		}) {
			return
		}
		if lerr != nil {
			outcome += loader + ":load-error;"
			c.Count("load_errors")
			continue
		}
		var cerr error
		if c.Guard(fmt.Sprintf("Compile after %s load, document fault %s: %s", loader, fault, string(js)), func() {
			cerr = spec.Compile(ctx, interpreters, true)
		}) {
			return
		}
		if cerr != nil {
			outcome += loader + ":compile-error;"
			c.Count("compile_errors")
			continue
		}
		c.Count("compiled")
		outcome += loader + ":ok;"
		// a host now processes messages against what it loaded
		for _, node := range append(names, "missing") {
			for _, msg := range []interface{}{map[string]interface{}{"a": 1.0}, nil} {
				var pend []interface{}
				if msg != nil {
					pend = []interface{}{msg}
				}
				st := &core.State{NodeName: node, Bs: map[string]interface{}{"?v": 1.0}}
				if c.Guard(fmt.Sprintf("Walk at node %q after %s load, document fault %s: %s", node, loader, fault, string(js)), func() {
					spec.Walk(ctx, st, pend, &core.Control{Limit: 6}, nil)
				}) {
					return
				}
				c.Count("walks_after_load")
			}
		}
	}
	c.Count("docfault_" + fault)
	c.MixHash(fault + outcome)
	c.Path = fault + "|" + outcome + "|" + fmt.Sprint(len(js))
	c.Trivial = fault == "none"
	doc2 := string(js)
	if len(doc2) > 1500 {
		doc2 = doc2[:1500] + "..."
	}
	c.Sample = map[string]interface{}{"fault": fault, "document": doc2, "outcome": strings.TrimSuffix(outcome, ";")}
}
