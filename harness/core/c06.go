//go:build verif_sim

package ecmascript_test

// C06: host faults "retry" (same inputs again after discarding the result) and
// "fan-out" (same message and spec, several states); deep snapshots of every
// argument before and after; aliasing of returned bindings with inputs.

import (
	"context"
	"fmt"
	"math"
	"sort"
	"strings"
	"testing"

	"github.com/Comcast/sheens/core"

	"verif/ref"
	"verif/sim"
)

func init() { registry["C06"] = runC06 }

func specPatterns(spec *core.Spec) string {
	names := make([]string, 0, len(spec.Nodes))
	for n := range spec.Nodes {
		names = append(names, n)
	}
	sort.Strings(names)
	s := ""
	for _, n := range names {
		node := spec.Nodes[n]
		if node == nil || node.Branches == nil {
			s += n + ":-;"
			continue
		}
		s += n + ":" + node.Branches.Type
		for _, b := range node.Branches.Branches {
			s += "|" + ref.Canon(b.Pattern) + ">" + b.Target
		}
		s += ";"
	}
	return fmt.Sprintf("%s aeb=%v aen=%s en=%s", s, spec.ActionErrorBranches, spec.ActionErrorNode, spec.ErrorNode)
}

func walkedCanon(w *core.Walked) string {
	if w == nil {
		return "nil"
	}
	s := fmt.Sprintf("%s rem=%s ", w.StoppedBecause, canonList(w.Remaining))
	for _, st := range w.Strides {
		s += fmt.Sprintf("[%s->%s c=%s e=%s]", stateCanon(st.From), stateCanon(st.To), ref.Canon(st.Consumed), canonList(st.Emitted))
	}
	return s
}

func strideCanon(st *core.Stride, err error) string {
	if st == nil {
		return fmt.Sprintf("nil err=%v", err != nil)
	}
	return fmt.Sprintf("[%s->%s c=%s e=%s] err=%v", stateCanon(st.From), stateCanon(st.To), ref.Canon(st.Consumed), canonList(st.Emitted), err != nil)
}

func runC06(c *sim.Ctx, t *testing.T) {
	sim.Install(c)
	defer sim.Uninstall()
	cfg := genCfg{native: true, failOps: true, nullRet: true, permanents: true, badBranch: true, unknownNode: true, guards: true, guardEmits: true, loops: true, maxNodes: 5, propWrites: true, errorNode: true, sameStub: true, inPlace: true, inPlaceAll: true, globals: true, noop: true, errName: true}
	gs := genSpec(c, cfg)
	spec, err := compile(gs)
	if err != nil {
		c.Infra = "generated spec does not compile: " + err.Error()
		return
	}
	ctx := context.Background()
	msgs := genHistory(c, 4)
	typed := c.Bool("typednumbers")
	draw := func(n int) int { return c.Intn(n, "numtype") }
	if typed {
		for i := range msgs {
			// messages built by a Go host: arrays of ids, counters as ints
			mm := msgs[i].(map[string]interface{})
			if c.Bool("idlist") {
				mm[msgKeys[c.Intn(3, "idkey")]] = []interface{}{1.0, 2.0, map[string]interface{}{"p": 3.0}}
			}
			msgs[i] = typify(draw, mm)
		}
	}
	if !typed && len(msgs) >= 2 && c.Chance(1, 8, "nilmessage") {
		// an unusual but legal batch: a nil entry followed by a real message
		k := c.Intn(len(msgs), "nilat")
		msgs = append(msgs[:k:k], append([]interface{}{nil}, msgs[k:]...)...)
	}
	// a scalar message for a branch whose whole pattern is that scalar (the match binds
	// nothing: the result must still not be the caller's map)
	scalarNode := ""
	if !typed && c.Chance(1, 5, "scalarmsg") {
		type pair struct {
			node string
			v    interface{}
		}
		var ps []pair
		for _, name := range nodeNames(gs) {
			n := gs.Nodes[name]
			if n.Type != "message" || n.Action != nil {
				continue
			}
			for _, b := range n.Branches {
				switch v := b.Pattern.(type) {
				case float64, bool:
					ps = append(ps, pair{name, v})
				case string:
					if !strings.HasPrefix(v, "?") {
						ps = append(ps, pair{name, v})
					}
				}
			}
		}
		if len(ps) > 0 {
			p := ps[c.Intn(len(ps), "scalarpick")]
			msgs = append([]interface{}{p.v}, msgs...)
			scalarNode = p.node
		}
	}
	nstates := 1 + c.Intn(3, "fanout")
	shape := ""
	for k := 0; k < nstates; k++ {
		start := genState(c, gs, cfg)
		if scalarNode != "" && k == 0 {
			start.Node = scalarNode
		}
		if start.Bs == nil {
			start.Bs = map[string]interface{}{}
		}
		if c.Chance(1, 8, "errorhistory") {
			// a machine that failed and recovered several times and kept its diagnostics: each
			// error state holds the bindings of the one before
			var h interface{} = map[string]interface{}{"n": 1.0}
			for d := 2 + c.Intn(4, "historydepth"); d > 0; d-- {
				h = map[string]interface{}{"lastBindings": h, "lastNode": "n0", "error": "earlier trouble"}
			}
			for k, v := range h.(map[string]interface{}) {
				start.Bs[k] = v
			}
		}
		if c.Chance(1, 8, "nanbinding") {
			// a value an earlier action computed (hits/misses with misses == 0) that JSON cannot
			// carry, beside structured bindings a script may write into
			start.Bs["avg"] = math.NaN()
			for _, k := range bsKeys {
				if _, have := start.Bs[k]; !have {
					start.Bs[k] = map[string]interface{}{"q": 1.0, "r": []interface{}{1.0}}
				}
			}
		}
		if typed {
			if c.Bool("idlistbs") {
				start.Bs[bsKeys[c.Intn(3, "idbskey")]] = []interface{}{1.0, 2.0}
			}
			typify(draw, start.Bs)
		}
		st := toState(start)
		ctl := &core.Control{Limit: []int{1, 2, 5, 30}[c.Intn(4, "limit")]}
		props := core.StepProps{"mid": "m1", "cfg": map[string]interface{}{"x": 1.0}}
		useWalk := c.Bool("walk")
		in := msgs // the same message objects are shown to every state (fan-out)
		snap := func() string {
			return fmt.Sprintf("state=%s/%s msgs=%s ctl=%d/%d props=%s spec=%s", st.NodeName, typedCanon(st.Bs), typedCanon(in), ctl.Limit, len(ctl.Breakpoints), typedCanon(map[string]interface{}(props)), specPatterns(spec))
		}
		before := snap()
		inPtr := mapPtr(st.Bs)
		var res1, res2 string
		var bad string
		call := func() string {
			if useWalk {
				var w *core.Walked
				if c.Guard("Walk", func() { w, _ = spec.Walk(ctx, st, in, ctl, props) }) {
					return "panic"
				}
				if w != nil {
					for i, s := range w.Strides {
						for what, x := range map[string]*core.State{"From": s.From, "To": s.To} {
							if x != nil && inPtr != 0 && mapPtr(x.Bs) == inPtr {
								bad = fmt.Sprintf("Strides[%d].%s.Bs is the caller's bindings map", i, what)
							}
						}
					}
					c.Count("stop_" + w.StoppedBecause.String())
					shape += w.StoppedBecause.String()[:1]
				}
				return walkedCanon(w)
			}
			var s *core.Stride
			var serr error
			var pending interface{}
			if len(in) > 0 {
				pending = in[0]
			}
			if c.Guard("Step", func() { s, serr = spec.Step(ctx, st, pending, ctl, props) }) {
				return "panic"
			}
			if s != nil {
				for what, x := range map[string]*core.State{"From": s.From, "To": s.To} {
					if x != nil && inPtr != 0 && mapPtr(x.Bs) == inPtr {
						bad = fmt.Sprintf("Stride.%s.Bs is the caller's bindings map", what)
					}
				}
			}
			if serr != nil {
				c.Count("step_errors")
				shape += "e"
			} else {
				shape += "s"
			}
			return strideCanon(s, serr)
		}
		res1 = call()
		if res1 == "panic" {
			return
		}
		after := snap()
		desc := fmt.Sprintf("\nstart %s/%s messages %s walk=%v limit=%d\nspec: %s", start.Node, ref.Canon(start.Bs), ref.Canon(msgs), useWalk, ctl.Limit, specJSON(gs))
		if before != after {
			what := "state"
			switch {
			case strings.Contains(before, "msgs=") && before[strings.Index(before, "msgs="):strings.Index(before, " ctl=")] != after[strings.Index(after, "msgs="):strings.Index(after, " ctl=")]:
				what = "messages"
			case before[strings.Index(before, "props="):strings.Index(before, " spec=")] != after[strings.Index(after, "props="):strings.Index(after, " spec=")]:
				what = "props"
			}
			fn := "Step"
			if useWalk {
				fn = "Walk"
			}
			c.Violate("mutated:"+what+":"+fn, "%s modified its %s:\nbefore %s\nafter  %s%s", fn, what, before, after, desc)
			return
		}
		if bad != "" {
			c.Violate("alias:bindings", "%s%s", bad, desc)
			return
		}
		// retry: the host discards the result and calls again with the same inputs
		res2 = call()
		if res2 == "panic" {
			return
		}
		c.Count("retries")
		if res1 != res2 {
			c.Violate("retry:differs", "two identical calls gave different results:\n1: %s\n2: %s%s", res1, res2, desc)
			return
		}
		if snap() != before {
			c.Violate("mutated:state:retry", "the second call modified its arguments%s", desc)
			return
		}
	}
	c.MixHash(shape)
	c.Path = specJSON(gs) + shape
	c.Sample = map[string]interface{}{"spec": gs, "messages": msgs, "shape": shape}
}
