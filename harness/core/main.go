//go:build verif_sim

package ecmascript_test

import (
	"io"
	"log"
	"testing"

	"verif/sim"
)

var registry = sim.Registry{}

func TestSim(t *testing.T) {
	log.SetOutput(io.Discard)
	sim.Main(t, registry)
}
