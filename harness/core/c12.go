//go:build verif_sim

package ecmascript_test

// C12: a compiled spec shared by concurrent walkers (each with its own state
// and history) under the serial scheduler with the race monitor, and an
// UpdatableSpec swapped between two versions while walks are in flight.

import (
	"context"
	"fmt"
	"strings"
	"testing"

	"github.com/Comcast/sheens/core"

	"verif/ref"
	"verif/sim"
)

func init() {
	registry["C12/shared"] = runC12Shared
	registry["C12/swap"] = runC12Swap
}

func runC12Shared(c *sim.Ctx, t *testing.T) {
	// run-specific variable names: anything the matcher might remember per name
	// (process-wide) is cold when the walkers start
	cfg := genCfg{native: true, failOps: true, nullRet: true, permanents: true, guards: true, guardEmits: true, loops: true, maxNodes: 4, ext: true, noop: true, errName: true,
		ineqSuffix: fmt.Sprintf("%d", c.Seed%1000003)}
	c.PermuteOff = true
	sim.Install(c)
	gs := genSpec(c, cfg)
	spec, err := compile(gs)
	if err != nil {
		sim.Uninstall()
		c.Infra = "generated spec does not compile: " + err.Error()
		return
	}
	nw := 2 + c.Intn(5, "nwalkers")
	type walker struct {
		start ref.State
		hist  []interface{}
		solo  []string
		got   []string
		ctx   context.Context
	}
	ws := make([]*walker, nw)
	ctl := &core.Control{Limit: 8}
	walkAll := func(w *walker, out *[]string) {
		st := toState(w.start)
		for _, m := range w.hist {
			wk, _ := spec.Walk(w.ctx, st, []interface{}{ref.CopyVal(m)}, ctl, nil)
			*out = append(*out, walkedCanon(wk))
			if wk != nil {
				if to := wk.To(); to != nil {
					st = to
				}
			}
		}
	}
	for i := range ws {
		w := &walker{start: genState(c, gs, cfg), hist: genHistory(c, 3)}
		if w.start.Bs == nil {
			w.start.Bs = map[string]interface{}{}
		}
		if c.Bool("boundineq") {
			w.start.Bs[ineqName] = []interface{}{1.0, 2.0, 10.0}[c.Intn(3, "bound")]
		}
		w.ctx = context.Background()
		ws[i] = w
	}
	// the fault: one walker's context is cancelled at some point while the others
	// are at work.  Only that walker's results may differ from what it gets alone.
	victim := -1
	cancelAfter := 0
	inProgram := -1 // >=0: the cancellation lands while the victim is about to run a script for the (n+1)th time
	if c.Chance(1, 2, "cancelfault") {
		victim = c.Intn(nw, "victim")
		cancelAfter = c.Intn(24, "cancelafter")
		if c.Bool("cancelinprogram") {
			inProgram = c.Intn(6, "cancelatprogram")
		}
		// the caller whose context is dead keeps working through a backlog: every execution
		// it starts from now on has a watcher that fires at once, next to the other walkers
		ws[victim].hist = append(ws[victim].hist, genHistory(c, 9)...)
	}
	skew := c.Bool("skew")
	sim.Uninstall()
	sim.Bubble(c, t, func(s *sim.Sched) {
		s.MaxSteps = 8000
		s.Skew = skew
		if victim >= 0 {
			vctx, cancel := context.WithCancel(context.Background())
			ws[victim].ctx = vctx
			if inProgram >= 0 {
				// placed by the simulator itself: the victim waits at the entry of RunProgram (its
				// watcher is on duty, the script has not started), everybody else is at rest
				name, seen, wasThere := fmt.Sprintf("w%d", victim), 0, false
				s.OnStep = func() {
					there := strings.Contains(s.ParkedAt(name), "RunProgram")
					if there && !wasThere {
						if seen == inProgram {
							cancel()
						}
						seen++
					}
					wasThere = there
				}
			} else {
				s.Go("canceller", func(tk *sim.Task) {
					for k := 0; k < cancelAfter; k++ {
						sim.Yield("h#cancel-wait")
					}
					cancel()
				})
			}
		}
		for i, w := range ws {
			w := w
			s.Go(fmt.Sprintf("w%d", i), func(tk *sim.Task) { walkAll(w, &w.got) })
		}
		s.Run()
		s.Drain(500)
	})
	for _, w := range ws {
		w.ctx = context.Background()
	}
	if victim >= 0 {
		c.Count("walker_contexts_cancelled")
	}
	conc := c.Sched
	// afterwards the same walks alone, for comparison (afterwards, so that the
	// sequential phase cannot warm anything up for the concurrent one)
	soloPanic := false
	sim.Bubble(c, t, func(s *sim.Sched) {
		for _, w := range ws {
			w := w
			if c.Guard("solo walk", func() { walkAll(w, &w.solo) }) {
				soloPanic = true
				return
			}
		}
	})
	if soloPanic {
		return
	}
	for i, w := range ws {
		if i == victim {
			continue
		}
		if len(w.got) != len(w.solo) {
			c.Violate("shared:incomplete", "walker %d finished %d of %d walks (stuck: %v)", i, len(w.got), len(w.solo), conc.Stuck)
			continue
		}
		for j := range w.got {
			if w.got[j] != w.solo[j] {
				c.Violate("shared:result", "walker %d, message %d: concurrently %s\n  alone %s\nspec: %s", i, j, w.got[j], w.solo[j], specJSON(gs))
				break
			}
		}
	}
	c.MixHash(fmt.Sprintf("%016x/%d", conc.Hash, conc.Steps))
	c.Add("scheduler_steps_concurrent_phase", conc.Steps)
	c.Add("walkers", nw)
	c.Add("steps_with_choice", conc.Switches)
	c.MixHash(specJSON(gs))
	c.Path = specJSON(gs) + fmt.Sprintf("%016x", conc.Hash)
	c.Trivial = conc.Switches == 0
	c.Sample = map[string]interface{}{"spec": gs, "walkers": nw}
}

// c12Version builds version "A" or "B": every action tags its emissions.
func c12Version(tag string, native bool, extraHop bool) *ref.Spec {
	act := func(k float64) *ref.Action {
		return &ref.Action{Native: native, Ops: []ref.Op{
			{Kind: "emit", V: map[string]interface{}{"ver": tag, "k": k}},
			{Kind: "set", K: "last", V: tag},
			{Kind: "emit", V: map[string]interface{}{"ver": tag, "k": k + 0.5}},
		}}
	}
	guard := &ref.Action{Ops: []ref.Op{{Kind: "set", K: "g", V: tag}}}
	s := &ref.Spec{Nodes: map[string]*ref.Node{
		"s":  {HasBr: true, Type: "message", Branches: []*ref.Branch{{HasPat: true, Pattern: map[string]interface{}{"a": "?v"}, Guard: guard, Target: "a1"}}},
		"a1": {Action: act(1), HasBr: true, Type: "bindings", Branches: []*ref.Branch{{Target: "a2"}}},
		"a2": {Action: act(2), HasBr: true, Type: "bindings", Branches: []*ref.Branch{{Target: "s"}}},
	}}
	if extraHop {
		s.Nodes["a2"].Branches[0].Target = "a3"
		s.Nodes["a3"] = &ref.Node{Action: act(3), HasBr: true, Type: "bindings", Branches: []*ref.Branch{{Target: "s"}}}
	}
	return s
}

// c12Derive builds version B the way an update is applied to a running system: a copy of
// the live version, edited (sources, guards, targets, one more node) and compiled.  like is
// an independently built B that says what the result has to be.
func c12Derive(live, like *core.Spec, note string) (*core.Spec, error) {
	d := live.Copy("B")
	names := make([]string, 0, len(like.Nodes))
	for name := range like.Nodes {
		names = append(names, name)
	}
	sortStrings(names)
	for _, name := range names {
		nb := like.Nodes[name]
		sim.Yield("h#derive")
		nd, have := d.Nodes[name]
		if !have {
			nd = nb.Copy()
			d.Nodes[name] = nd
		}
		if nb.ActionSource != nil {
			nd.ActionSource = nb.ActionSource.Copy()
			if src, ok := nd.ActionSource.Source.(string); ok && note != "" {
				// (a source text nobody has compiled before)
				nd.ActionSource.Source = src + "\n// " + note
			}
			nd.Action = nil
		}
		if nd.Branches == nil || nb.Branches == nil {
			continue
		}
		for i, br := range nd.Branches.Branches {
			if i >= len(nb.Branches.Branches) {
				break
			}
			br.Target = nb.Branches.Branches[i].Target
			if gs := nb.Branches.Branches[i].GuardSource; gs != nil {
				br.GuardSource = gs.Copy()
				br.Guard = nil
			}
		}
	}
	sim.Yield("h#derive-compile")
	if err := d.Compile(context.Background(), interpreters, true); err != nil {
		return nil, err
	}
	return d, nil
}

func runC12Swap(c *sim.Ctx, t *testing.T) {
	c.PermuteOff = true
	sim.Install(c)
	native := c.Bool("native")
	genExt = false
	va, err1 := compile(c12Version("A", native, false))
	nativeB := !native && c.Bool("nativeB")
	genExt = false
	vb, err2 := compile(c12Version("B", nativeB, true))
	sim.Uninstall()
	if err1 != nil || err2 != nil {
		c.Infra = fmt.Sprint("version specs do not compile: ", err1, err2)
		return
	}
	// half of the script-only runs do not swap in an independently built version B: the
	// updater derives it from the live version A (Spec.Copy), edits the copy and compiles
	// it while walks over A are in flight - as a host applying a spec update does
	derive := !native && !nativeB && c.Chance(3, 4, "derive")
	ctx := context.Background()
	nw := 2 + c.Intn(4, "nwalkers")
	nmsg := 1 + c.Intn(4, "nmsgs")
	nswaps := 1 + c.Intn(6, "nswaps")
	ctl := &core.Control{Limit: 10}
	recompile := c.Chance(1, 3, "recompile")
	// fault: the updater is handed a version that was never compiled (a broken update).
	// Whether the crew's UpdatableSpec takes it is its business; if it says it refused, no
	// processing call may have seen it.
	offerRaw := c.Chance(1, 4, "offerraw")
	raw := &core.Spec{Name: "raw", Nodes: map[string]*core.Node{"s": {Branches: &core.Branches{Type: "message"}}}}
	offered, refused := 0, 0
	sawRaw := make([]int, 8)
	us := core.NewUpdatableSpec(va)
	type call struct{ got, wantA, wantB string }
	calls := make([][]call, nw)
	sim.Bubble(c, t, func(s *sim.Sched) {
		s.MaxSteps = 8000
		for i := 0; i < nw; i++ {
			i := i
			s.Go(fmt.Sprintf("w%d", i), func(tk *sim.Task) {
				st := &core.State{NodeName: "s", Bs: map[string]interface{}{"w": float64(i)}}
				for j := 0; j < nmsg; j++ {
					msg := map[string]interface{}{"a": float64(10*i + j)}
					sim.Yield("h#before-spec")
					spec := us.Spec()
					if spec == raw || spec == nil {
						// the host installed a version that cannot run (or the crew let it through): this
						// call is not compared; it is counted in case the version had been refused
						sawRaw[i]++
						calls[i] = append(calls[i], call{"raw", "raw", "raw"})
						continue
					}
					w, _ := spec.Walk(ctx, st, []interface{}{msg}, ctl, nil)
					// what either version alone makes of this call
					wa, _ := va.Walk(ctx, st.Copy(), []interface{}{ref.CopyVal(msg)}, ctl, nil)
					wb, _ := vb.Walk(ctx, st.Copy(), []interface{}{ref.CopyVal(msg)}, ctl, nil)
					calls[i] = append(calls[i], call{walkedCanon(w), walkedCanon(wa), walkedCanon(wb)})
					if w != nil {
						if to := w.To(); to != nil {
							st = to
						}
					}
				}
			})
		}
		if derive {
			// a second host thread prepares another version at the same time (never swapped in):
			// compiling is something several goroutines do at once with one shared interpreter
			s.Go("deriver2", func(tk *sim.Task) {
				sim.Yield("h#derive2")
				c12Derive(va, vb, fmt.Sprintf("prepared by the second thread, run %d", c.Seed%100003))
			})
		}
		if recompile {
			// ... or just copies the live version and compiles the copy from source again, as a
			// host does before it edits anything (never swapped in)
			s.Go("recompiler", func(tk *sim.Task) {
				sim.Yield("h#recompile")
				d := va.Copy("A2")
				sim.Yield("h#recompile-compile")
				d.Compile(context.Background(), interpreters, true)
			})
		}
		s.Go("swapper", func(tk *sim.Task) {
			next := vb
			for k := 0; k < nswaps; k++ {
				sim.Yield("h#swap")
				if k == 0 && derive {
					if d, err := c12Derive(va, vb, fmt.Sprintf("derived in run %d", c.Seed%100003)); err == nil {
						next = d
					}
				}
				if offerRaw && k == 0 {
					offered++
					if err := us.SetSpec(raw); err != nil {
						refused++
					} else {
						sim.Yield("h#raw-accepted")
					}
				}
				if k%2 == 0 {
					us.SetSpec(next)
				} else {
					us.SetSpec(va)
				}
			}
		})
		s.Run()
		s.Drain(500)
	})
	if offered > 0 && refused == offered {
		for i, n := range sawRaw {
			if n > 0 {
				c.Violate("swap:refused-version-observed", "walker %d loaded the version that SetSpec refused (%d times): a call saw neither the old nor the new version", i, n)
			}
		}
		c.Count("refused_versions")
	}
	sawA, sawB := 0, 0
	for i, cs := range calls {
		if len(cs) != nmsg {
			c.Violate("swap:incomplete", "walker %d finished %d of %d walks", i, len(cs), nmsg)
			continue
		}
		for j, k := range cs {
			switch k.got {
			case k.wantA:
				sawA++
			case k.wantB:
				sawB++
			default:
				c.Violate("swap:mixed", "walker %d call %d observed neither version completely:\n  got %s\n  A   %s\n  B   %s", i, j, k.got, k.wantA, k.wantB)
			}
		}
	}
	c.Add("calls_saw_A", sawA)
	c.Add("calls_saw_B", sawB)
	c.Add("steps_with_choice", c.Sched.Switches)
	if derive {
		c.Count("versions_derived_from_the_live_one")
	}
	c.MixHash(fmt.Sprint(nw, nmsg, nswaps, sawA, sawB, derive))
	c.Path = fmt.Sprintf("%d/%d/%d/%v/%016x", nw, nmsg, nswaps, derive, c.Sched.Hash)
	c.Trivial = c.Sched.Switches == 0
	c.Sample = map[string]interface{}{"walkers": nw, "messages_each": nmsg, "swaps": nswaps, "calls_saw_A": sawA, "calls_saw_B": sawB}
}
