//go:build verif_sim

package ecmascript_test

// C05: a simulated host delivers a history in batches, with step limits and
// breakpoints, resuming after every interruption; the recorded history is
// checked for ordered exactly-once consumption, the step bound, a truthful
// remainder, stride continuity, quiescence at Done, and split invariance.

import (
	"context"
	"fmt"
	"testing"

	"github.com/Comcast/sheens/core"

	"verif/ref"
	"verif/sim"
)

func init() { registry["C05"] = runC05 }

func genHistory(c *sim.Ctx, max int) []interface{} {
	n := 1 + c.Intn(max, "nmsgs")
	out := make([]interface{}, 0, n)
	for i := 0; i < n; i++ {
		m := genMessage(c)
		mm, ok := m.(map[string]interface{})
		if !ok {
			mm = map[string]interface{}{"a": m}
			if m == nil {
				mm = map[string]interface{}{"a": 1.0}
			}
		}
		mm["seq"] = float64(i) // every message is unique
		out = append(out, mm)
	}
	return out
}

func canConsume(gs *ref.Spec, node string) bool {
	n, ok := gs.Nodes[node]
	return ok && n.Action == nil && n.HasBr && n.Type == "message"
}

func runC05(c *sim.Ctx, t *testing.T) {
	sim.Install(c)
	defer sim.Uninstall()
	cfg := genCfg{native: true, failOps: true, nullRet: true, permanents: true, unknownNode: true, guards: true, loops: true, maxNodes: 5, errorNode: true, sameStub: true, badBranch: true}
	// Fault: the host's context ends - before the first call, or while the k-th action of
	// the history runs.  Only with programs whose actions are all native (they ignore the
	// context, so every rule below still applies unchanged; what a cancelled context does
	// to a running script is C11's subject).
	ctxFault := c.Chance(1, 6, "ctxfault")
	cancelAfter := 0
	if ctxFault {
		cfg.nativeOnly = true
		cancelAfter = c.Intn(5, "cancelafter")
	}
	gs := genSpec(c, cfg)
	spec, err := compile(gs)
	if err != nil {
		c.Infra = "generated spec does not compile: " + err.Error()
		return
	}
	ctx := context.Background()
	if ctxFault {
		var cancel context.CancelFunc
		ctx, cancel = context.WithCancel(ctx)
		defer cancel()
		if cancelAfter == 0 {
			cancel()
		}
		executed := 0
		nativeHook = func() {
			executed++
			if executed == cancelAfter {
				cancel()
			}
		}
		defer func() { nativeHook = nil }()
		c.Count("runs_with_cancelled_context")
	}
	start := genState(c, gs, cfg)
	if start.Bs == nil {
		start.Bs = map[string]interface{}{}
	}
	hist := genHistory(c, 8)
	limits := []int{0, 1, 2, 3, 5, 10, 40}
	fail := func(rule, format string, args ...interface{}) {
		c.Violate("walk:"+rule, format+"\nstart %s/%s history %s\nspec: %s", append(args, start.Node, ref.Canon(start.Bs), ref.Canon(hist), specJSON(gs))...)
	}

	// ---- host with interruptions
	st := toState(start)
	rest := copyMsgs(hist)
	interrupted := false
	var emitted []interface{}
	calls := 0
	shape := ""
	for len(rest) > 0 && calls < 24 {
		calls++
		take := 1 + c.Intn(len(rest), "batch")
		batch := copyMsgs(rest[:take])
		ctl := &core.Control{Limit: limits[c.Intn(len(limits), "limit")]}
		bpNode := ""
		if c.Chance(1, 4, "breakpoint") {
			names := nodeNames(gs)
			bpNode = names[c.Intn(len(names), "bpnode")]
			ctl.Breakpoints = map[string]core.Breakpoint{"bp": func(_ context.Context, s *core.State) bool { return s.NodeName == bpNode }}
		}
		given := st.Copy()
		var w *core.Walked
		var werr error
		if c.Guard("Walk", func() { w, werr = spec.Walk(ctx, st, batch, ctl, nil) }) {
			return
		}
		if werr != nil || w == nil {
			fail("error", "Walk returned error %v", werr)
			return
		}
		c.Count("walks")
		shape += fmt.Sprintf("%d/%d/%v/%s;", take, ctl.Limit, bpNode != "", w.StoppedBecause)
		if len(w.Strides) > ctl.Limit {
			fail("limit", "%d strides with limit %d", len(w.Strides), ctl.Limit)
			return
		}
		// continuity
		cur := stateCanon(given)
		consumed := 0
		for i, s := range w.Strides {
			if s.From == nil || stateCanon(s.From) != cur {
				fail("continuity", "stride %d starts from %s but the previous state was %s", i, stateCanon(s.From), cur)
				return
			}
			if s.To != nil {
				cur = stateCanon(s.To)
			}
			if s.Consumed != nil {
				if consumed >= len(batch) || ref.Canon(s.Consumed) != ref.Canon(batch[consumed]) {
					fail("consume-order", "stride %d consumed %s, expected message %d of the batch %s", i, ref.Canon(s.Consumed), consumed, ref.Canon(batch))
					return
				}
				consumed++
			}
			emitted = append(emitted, s.Emitted...)
		}
		c.Add("strides", len(w.Strides))
		c.Add("consumed", consumed)
		next := st
		if to := w.To(); to != nil {
			if stateCanon(to) != cur {
				fail("continuity", "Walked.To() is %s but the last stride reached %s", stateCanon(to), cur)
				return
			}
			next = to
		}
		switch w.StoppedBecause {
		case core.Limited, core.BreakpointReached:
			interrupted = true
			c.Count("stop_" + w.StoppedBecause.String())
			if ref.Canon(w.Remaining) != ref.Canon(batch[consumed:]) && !(len(w.Remaining) == 0 && consumed == len(batch)) {
				fail("remaining", "stopped (%s) after consuming %d of %d messages but Remaining is %s, expected %s",
					w.StoppedBecause, consumed, len(batch), ref.Canon(w.Remaining), ref.Canon(batch[consumed:]))
				return
			}
			// resume from the returned state with exactly the remainder (breakpoint cleared)
			rest = append(copyMsgs(batch[consumed:]), rest[take:]...)
			if w.StoppedBecause == core.Limited && ctl.Limit == 0 {
				// nothing can happen with limit 0; the next call draws a new limit
			}
		case core.Done:
			c.Count("stop_Done")
			if consumed < len(batch) {
				c.Count("discarded_at_done")
				if canConsume(gs, next.NodeName) {
					fail("discard", "Done with %d of %d messages unconsumed although the machine sits at %q, a node that consumes messages",
						len(batch)-consumed, len(batch), next.NodeName)
					return
				}
			}
			// quiescent: one more step without a message moves nowhere
			var s2 *core.Stride
			if c.Guard("Step", func() { s2, _ = spec.Step(ctx, next.Copy(), nil, ctl, nil) }) {
				return
			}
			var s2err error
			if s2 == nil {
				// (an error is not rest either: the walk would have gone on to the error node)
				c.Guard("Step", func() { _, s2err = spec.Step(ctx, next.Copy(), nil, ctl, nil) })
			}
			if s2err != nil && next.NodeName != "error" {
				fail("not-quiescent", "Walk reported Done at %s but a further step without a message fails with %q (a walk would go on to the error node)", stateCanon(next), s2err.Error())
				return
			}
			if s2 != nil && s2.To != nil {
				fail("not-quiescent", "Walk reported Done at %s but a further step without a message moves to %s", stateCanon(next), stateCanon(s2.To))
				return
			}
			rest = rest[take:]
		default:
			fail("stop-reason", "unexpected stop reason %v", w.StoppedBecause)
			return
		}
		st = next.Copy()
	}

	// ---- split invariance (only meaningful when nothing interrupted delivery)
	if !interrupted && len(rest) == 0 {
		big := &core.Control{Limit: 400}
		var w *core.Walked
		if c.Guard("Walk", func() { w, _ = spec.Walk(ctx, toState(start), copyMsgs(hist), big, nil) }) {
			return
		}
		if w != nil && w.StoppedBecause == core.Done {
			c.Count("split_compared")
			final := toState(start)
			if to := w.To(); to != nil {
				final = to
			}
			// error text is not part of the comparison (it can name either of two offending keys)
			if final.NodeName+"/"+canonBs(map[string]interface{}(final.Bs)) != st.NodeName+"/"+canonBs(map[string]interface{}(st.Bs)) {
				fail("split-state", "delivering the history in batches ends at %s, all at once at %s", stateCanon(st), stateCanon(final))
				return
			}
			if canonList(allEmitted(w)) != canonList(emitted) {
				fail("split-emitted", "delivering the history in batches emits %s, all at once %s", canonList(emitted), canonList(allEmitted(w)))
				return
			}
		}
	}
	c.MixHash(shape + stateCanon(st))
	c.Path = shape
	c.Trivial = calls < 2
	c.Sample = map[string]interface{}{"spec": gs, "start": start, "history": hist, "calls": shape}
}
