//go:build verif_sim

package ecmascript_test

// Generator of machine specifications, states and messages (DESIGN.md 2.6),
// and their compilation to core.Spec with ECMAScript or native actions.

import (
	"context"
	"encoding/json"
	"errors"
	"fmt"
	"math"
	"strings"

	"github.com/Comcast/sheens/core"
	"github.com/Comcast/sheens/interpreters/ecmascript"
	"github.com/Comcast/sheens/interpreters/noop"
	"github.com/Comcast/sheens/match"

	"verif/ref"
	"verif/sim"
)

type genCfg struct {
	native      bool // allow native actions
	stubs       bool // allow stub interpreter outcomes (nil,err) / (partial,err) / Bs:nil
	failOps     bool // allow throw / retbad / emitbad
	nullRet     bool // allow "return null" in actions
	permanents  bool // bindings with '!' names
	badBranch   bool // action + message branching
	unknownNode bool // start states at unknown nodes
	guards      bool
	guardEmits  bool
	loops       bool // allow bindings nodes that may cycle
	maxNodes    int
	ineqSuffix  string // appended to the inequality variable's name (run-specific names defeat process-wide caches)
	ineqOften   bool
	propWrites  bool // scripts may write their (copied) step properties
	errorNode   bool // the spec may define its own (non-terminal) "error" node
	errName     bool // the spec may name its automatic error node differently (Spec.ErrorNode)
	multiCand   bool // patterns that match in several ways, with guards that accept some candidates (outcome may be arbitrary)
	nativeOnly  bool // every action and guard is native (no interpreter, no goroutines)
	inPlace     bool // native guards may work directly on the bindings they are handed
	inPlaceAll  bool // ... and so may native actions and the guards of branches without a pattern (top level only: delete, overwrite, clear)
	ext         bool // scripts run in the extended interpreter and may call _.randstr()
	noop        bool // some actions and guards run in the shipped noop interpreter
	globals     bool // scripts may count in a global of their runtime (a fresh runtime starts at 1)
	sameStub    bool // native actions that hand back the very bindings they were given
	varStrings  bool // message values may be strings that look like pattern variables ("?v"): data, not patterns
}

var constVals = []interface{}{1.0, 2.0, "x", "y", true, nil, 1.5}

// bigVals: values for action-set bindings whose text form depends on their Go type
// (1000000 as int64, 1e+06 as float64)
var bigVals = []interface{}{1000000.0, 2500000.0}

func genConst(c *sim.Ctx) interface{} { return constVals[c.Intn(len(constVals), "const")] }

func genValue(c *sim.Ctx, depth int) interface{} {
	switch c.Intn(9, "val") {
	case 0:
		if depth < 2 {
			return map[string]interface{}{"p": genValue(c, depth+1)}
		}
	case 1:
		if depth < 2 {
			// arrays are sets to the matcher: no duplicate scalar members (as the properties state)
			a, b := genConst(c), genValue(c, depth+1)
			if ref.Canon(a) == ref.Canon(b) {
				return []interface{}{a}
			}
			return []interface{}{a, b}
		}
	case 2:
		if depth < 2 {
			// objects inside arrays (inside arrays)
			return []interface{}{map[string]interface{}{"p": genConst(c)}, []interface{}{map[string]interface{}{"r": genConst(c)}}}
		}
	}
	return genConst(c)
}

var msgKeys = []string{"a", "b", "c"}
var bsKeys = []string{"n", "f", "s"}
var varNames = []string{"?v", "?w", "?t~"}

var ineqName = "?<n"

// genMultiCand: whether the current program may use patterns with several
// candidates (set by genSpec from its configuration; also steers genMessage).
var genMultiCand = false

// genVarStrings: whether message values may be strings that look like pattern
// variables (a peer that sends a pattern as data).  Once bound they are values.
var genVarStrings = false

func genMsgPattern(c *sim.Ctx, keys []string, ineq bool) interface{} {
	if c.Chance(1, 12, "scalarpat") {
		// a bare scalar pattern (a null pattern is "no pattern" and is generated as such)
		// (a bare variable only against messages: against the bindings it would bind the
		// bindings to themselves, which doubles their size on every turn of a cycle)
		vals := []interface{}{1.0, "x", true, "?v"}
		if len(keys) > 0 && keys[0] == bsKeys[0] {
			vals = vals[:3]
		}
		return vals[c.Intn(len(vals), "scalarpatval")]
	}
	n := 1 + c.Intn(2, "patkeys")
	p := map[string]interface{}{}
	for i := 0; i < n; i++ {
		k := keys[c.Intn(len(keys), "patkey")]
		switch c.Intn(12, "patval") {
		case 0, 1, 2:
			p[k] = genConst(c)
		case 3, 4, 5:
			p[k] = varNames[c.Intn(len(varNames), "var")]
		case 6:
			p[k] = "?"
		case 7:
			p[k] = "??o"
		case 8:
			if ineq {
				p[k] = ineqName
			} else {
				p[k] = "?v"
			}
		case 9:
			p[k] = map[string]interface{}{"p": "?v"}
		case 10:
			p[k] = []interface{}{1.0}
		case 11:
			// matches in several ways against an array of scalars
			if genMultiCand {
				p[k] = []interface{}{"?v"}
				if c.Bool("arrconst") {
					p[k] = []interface{}{2.0, "?v"}
				}
			} else {
				p[k] = "?v"
			}
		}
	}
	return p
}

func genMessage(c *sim.Ctx) interface{} {
	if c.Chance(1, 12, "scalarmsg") {
		return genConst(c)
	}
	m := map[string]interface{}{}
	if genMultiCand && c.Chance(1, 4, "msgarrA") {
		m["a"] = [][]interface{}{{1.0, 2.0, 3.0}, {2.0, "x"}, {"x", "y", 2.0}, {3.0, 1.0},
			// many candidates, the one a selective guard may be waiting for among the last
			{10.0, 11.0, 12.0, 13.0, 14.0, 15.0, 16.0, 17.0, 18.0, 19.0, 3.0, "x"},
			{"p", "q", "r", "s", "t", "u", "w", "y", "z", 2.0}}[c.Intn(6, "msgarrAval")]
		return m
	}
	n := 1 + c.Intn(3, "msgkeys")
	for i := 0; i < n; i++ {
		k := msgKeys[c.Intn(len(msgKeys), "msgkey")]
		if c.Chance(1, 6, "msgnest") {
			m[k] = map[string]interface{}{"p": genConst(c)}
		} else if genMultiCand && c.Chance(1, 6, "msgarr") {
			m[k] = [][]interface{}{{1.0, 2.0, 3.0}, {2.0, "x"}, {"x", "y", 2.0}, {1.0}}[c.Intn(4, "msgarrval")]
		} else if genVarStrings && c.Chance(1, 8, "msgvarstring") {
			m[k] = []interface{}{"?v", "?w", "?", "?v"}[c.Intn(4, "msgvarstringval")]
		} else {
			m[k] = genConst(c)
		}
	}
	return m
}

func genAction(c *sim.Ctx, cfg genCfg, names []string, guard bool) *ref.Action {
	if cfg.noop && c.Chance(1, 6, "noop") {
		// hands back the bindings it is given and emits nothing
		return &ref.Action{Noop: true, Stub: "same"}
	}
	a := &ref.Action{}
	if cfg.native && (cfg.nativeOnly || c.Chance(1, 3, "native")) {
		a.Native = true
		if (guard || cfg.inPlaceAll) && cfg.inPlace && c.Chance(1, 2, "inplace") {
			a.InPlace = true
		}
		if cfg.stubs && c.Chance(1, 4, "stub") {
			// "same": hands back the very bindings it was given, as the shipped noop
			// interpreter and the sio captain's native action do
			a.Stub = []string{"nil-err", "partial-err", "nil-bs", "no-events", "same", "same", "no-traces", "slice-err"}[c.Intn(8, "stubkind")]
		} else if cfg.sameStub && c.Chance(1, 5, "samestub") {
			a.Stub = "same"
		}
	}
	n := 1 + c.Intn(4, "nops")
	seq := 0
	for i := 0; i < n; i++ {
		k := c.Intn(17, "opkind")
		switch {
		case k <= 2:
			if guard && !cfg.guardEmits {
				continue
			}
			seq++
			a.Ops = append(a.Ops, ref.Op{Kind: "emit", V: map[string]interface{}{"e": float64(seq), "to": "x"}})
		case k == 3:
			if guard && !cfg.guardEmits {
				continue
			}
			// mostly the matched value; sometimes another binding, and sometimes the emitted
			// value is changed in place right afterwards (the message must keep what it was)
			ek := append(append([]string{"?v", "?v", "?v"}, bsKeys...), "k!")[c.Intn(7, "emitbkey")]
			a.Ops = append(a.Ops, ref.Op{Kind: "emitb", K: ek})
			if c.Chance(1, 3, "emitthennest") {
				a.Ops = append(a.Ops, ref.Op{Kind: "nest", K: ek, K2: "q", V: genConst(c)})
			}
		case k <= 6:
			key := append(append([]string{}, bsKeys...), "?v", "k!", "next")[c.Intn(6, "setkey")]
			var v interface{} = genValue(c, 0)
			if c.Chance(1, 10, "bigval") {
				v = bigVals[c.Intn(len(bigVals), "bigvalwhich")]
			}
			if key == "next" || key == "s" {
				if c.Bool("setnode") {
					v = names[c.Intn(len(names), "setnodename")]
				}
			}
			if !cfg.permanents && key == "k!" {
				key = "n"
			}
			a.Ops = append(a.Ops, ref.Op{Kind: "set", K: key, V: v})
		case k == 7:
			a.Ops = append(a.Ops, ref.Op{Kind: "del", K: append(append([]string{}, bsKeys...), "?v", "k!")[c.Intn(5, "delkey")]})
		case k == 8:
			a.Ops = append(a.Ops, ref.Op{Kind: "clear"})
		case k == 9 && !a.Native && c.Chance(1, 3, "setundef"):
			// a binding whose value is undefined: it comes back bound to nothing (null), it does not vanish
			a.Ops = append(a.Ops, ref.Op{Kind: "setundef", K: bsKeys[c.Intn(3, "suk")]})
		case k == 9:
			a.Ops = append(a.Ops, ref.Op{Kind: "setfrom", K: bsKeys[c.Intn(3, "sfk")], K2: "?v"})
		case k == 10:
			a.Ops = append(a.Ops, ref.Op{Kind: "nest", K: append(append([]string{}, bsKeys...), "k!", "?v")[c.Intn(5, "nk")], K2: "q", V: genConst(c)})
		case k == 11:
			if cfg.failOps {
				a.Ops = append(a.Ops, ref.Op{Kind: "throw"})
			}
		case k == 12:
			if cfg.failOps {
				a.Ops = append(a.Ops, ref.Op{Kind: []string{"retbad", "retbad", "retarr", "retfn", "retdate", "retgetter", "retcyclic", "throwbare", "throwhostile", "throwplain", "throwarr", "retzero", "retfalse", "retempty"}[c.Intn(14, "badkind")]})
			}
		case k == 13:
			if cfg.failOps && !a.Native {
				a.Ops = append(a.Ops, ref.Op{Kind: "emitbad"})
			}
		case k == 16:
			if guard {
				a.Ops = append(a.Ops, ref.Op{Kind: "require", K: "?v", V: []interface{}{1.0, 2.0, 3.0, "x", "y"}[c.Intn(5, "reqval")]})
			}
		case k == 15 && cfg.globals && !a.Native && c.Bool("globalinc"):
			a.Ops = append(a.Ops, ref.Op{Kind: "globalinc"})
		case k == 15:
			if cfg.propWrites && !a.Native {
				a.Ops = append(a.Ops, ref.Op{Kind: "propset"})
			}
		case k == 14 && cfg.ext && c.Chance(1, 2, "randstr"):
			a.Ops = append(a.Ops, ref.Op{Kind: "randstr"})
		case k == 14:
			if cfg.nullRet || guard {
				a.Ops = append(a.Ops, ref.Op{Kind: "retnull"})
			}
		}
	}
	return a
}

func genSpec(c *sim.Ctx, cfg genCfg) *ref.Spec {
	ineqName = "?<n" + cfg.ineqSuffix
	genMultiCand = cfg.multiCand
	genVarStrings = cfg.varStrings
	genExt = cfg.ext
	nn := 2 + c.Intn(cfg.maxNodes-1, "nnodes")
	names := make([]string, nn)
	for i := range names {
		names[i] = fmt.Sprintf("n%d", i)
	}
	s := &ref.Spec{Nodes: map[string]*ref.Node{}}
	switch c.Intn(5, "errmode") {
	case 4:
		// both settings: the error branches take precedence over the designated node
		s.ActionErrorBranches = true
		s.ActionErrorNode = names[c.Intn(nn, "aerrnode2")]
	case 1:
		s.ActionErrorBranches = true
	case 2:
		s.ActionErrorNode = names[c.Intn(nn, "aerrnode")]
		if c.Chance(1, 5, "aerrmissing") {
			// a designated node the spec does not (or no longer does) define: the failure is
			// routed there all the same
			s.ActionErrorNode = "nowhere"
		}
	case 3:
		s.NoAutoErrorNode = c.Bool("noauto")
	}
	if cfg.errName && c.Chance(1, 4, "errname") {
		// the automatic terminal node goes under another name; failures still lead to "error"
		s.ErrorNode = "oops"
	}
	target := func() string {
		switch c.Intn(12, "target") {
		case 0:
			return "nowhere"
		case 1:
			return "@next"
		case 2:
			return "@s"
		}
		return names[c.Intn(nn, "targetnode")]
	}
	genBranches := func(n *ref.Node, keys []string, ineq bool) {
		nb := c.Intn(4, "nbranches")
		for i := 0; i < nb; i++ {
			b := &ref.Branch{Target: target()}
			if !c.Chance(1, 5, "nopattern") {
				b.HasPat = true
				b.Pattern = genMsgPattern(c, keys, ineq)
			}
			if cfg.guards && c.Chance(1, 4, "guard") {
				b.Guard = genAction(c, cfg, names, true)
				if (!b.HasPat || b.Pattern == nil) && !cfg.inPlaceAll {
					// without a pattern the guard is handed the state's own bindings, as a native
					// action is; only a match result is the guard's to change (C03: each result
					// is an independent map)
					b.Guard.InPlace = false
				}
			}
			n.Branches = append(n.Branches, b)
		}
	}
	all := names
	if cfg.errorNode && c.Chance(1, 3, "usererrornode") {
		// a user-defined error node that is not terminal
		all = append(append([]string{}, names...), "error")
	}
	for _, name := range all {
		n := &ref.Node{}
		switch c.Intn(8, "nodekind") {
		case 0, 1, 2: // action node
			n.Action = genAction(c, cfg, names, false)
			if !c.Chance(1, 8, "actionterminal") {
				n.HasBr = true
				n.Type = []string{"bindings", ""}[c.Intn(2, "brtype")]
				if cfg.badBranch && c.Chance(1, 10, "badbranch") {
					n.Type = "message"
				}
				genBranches(n, bsKeys, false)
				if c.Chance(2, 3, "defaultbranch") {
					n.Branches = append(n.Branches, &ref.Branch{Target: target()})
				}
			}
		case 3, 4, 5, 6: // message node
			n.HasBr = true
			n.Type = "message"
			if cfg.guards && cfg.multiCand && c.Chance(1, 4, "selective") {
				// a pattern that matches in several ways, and a guard that accepts one of them
				n.Branches = append(n.Branches, &ref.Branch{HasPat: true, Pattern: map[string]interface{}{"a": []interface{}{"?v"}},
					Guard:  &ref.Action{Native: cfg.nativeOnly, Ops: []ref.Op{{Kind: "require", K: "?v", V: []interface{}{1.0, 2.0, 3.0, "x"}[c.Intn(4, "selval")]}, {Kind: "set", K: "n", V: "picked"}}},
					Target: target()})
			}
			genBranches(n, msgKeys, true)
		case 7:
			if cfg.loops && c.Bool("bindingsnode") {
				n.HasBr = true
				n.Type = "bindings"
				if c.Chance(1, 3, "typeless") {
					n.Type = "" // a branching object without a type (bindings is the default), maybe without branches
				}
				genBranches(n, bsKeys, false)
			}
			// else terminal
		}
		s.Nodes[name] = n
	}
	return s
}

func genBindings(c *sim.Ctx, cfg genCfg) map[string]interface{} {
	bs := map[string]interface{}{}
	n := c.Intn(4, "nbs")
	for i := 0; i < n; i++ {
		switch c.Intn(7, "bskind") {
		case 0, 1:
			bs[bsKeys[c.Intn(3, "bskey")]] = genValue(c, 0)
		case 2:
			bs["?v"] = genConst(c)
		case 3:
			if cfg.permanents {
				bs["k!"] = genValue(c, 0)
			}
		case 4:
			bs[ineqName] = []interface{}{1.0, 2.0, 1.5}[c.Intn(3, "bound")]
		case 5:
			bs["next"] = fmt.Sprintf("n%d", c.Intn(3, "nextnode"))
		case 6:
			if cfg.permanents {
				bs["p!"] = genConst(c)
			}
		}
	}
	return bs
}

func genState(c *sim.Ctx, s *ref.Spec, cfg genCfg) ref.State {
	names := nodeNames(s)
	node := names[c.Intn(len(names), "startnode")]
	if cfg.unknownNode && c.Chance(1, 12, "unknownnode") {
		node = "zz"
	}
	return ref.State{Node: node, Bs: genBindings(c, cfg)}
}

func nodeNames(s *ref.Spec) []string {
	names := make([]string, 0, len(s.Nodes))
	for i := 0; i < len(s.Nodes)+2; i++ {
		n := fmt.Sprintf("n%d", i)
		if _, ok := s.Nodes[n]; ok {
			names = append(names, n)
		}
	}
	return names
}

// ---- rendering ---------------------------------------------------------------

func jsLit(v interface{}) string {
	b, err := json.Marshal(v)
	if err != nil {
		panic(err)
	}
	return string(b)
}

// renderJS renders an action as ECMAScript source for the real interpreter.
func renderJS(a *ref.Action) string {
	var sb strings.Builder
	sb.WriteString("var bs = _.bindings;\n")
	for _, op := range a.Ops {
		switch op.Kind {
		case "emit":
			fmt.Fprintf(&sb, "_.out(%s);\n", jsLit(op.V))
		case "emitb":
			fmt.Fprintf(&sb, "_.out({\"got\": (bs[%s] === undefined ? null : bs[%s])});\n", jsLit(op.K), jsLit(op.K))
		case "set":
			fmt.Fprintf(&sb, "bs[%s] = %s;\n", jsLit(op.K), jsLit(op.V))
		case "setfrom":
			fmt.Fprintf(&sb, "if (bs[%s] !== undefined) { bs[%s] = bs[%s]; }\n", jsLit(op.K2), jsLit(op.K), jsLit(op.K2))
		case "nest":
			fmt.Fprintf(&sb, "(function nest(x) { if (x === null || typeof x !== 'object') { return; } if (Array.isArray(x)) { for (var i = 0; i < x.length; i++) { if (x[i] !== null && typeof x[i] === 'object') { nest(x[i]); } } } else { x[%s] = %s; } })(bs[%s]);\n",
				jsLit(op.K2), jsLit(op.V), jsLit(op.K))
		case "del":
			fmt.Fprintf(&sb, "delete bs[%s];\n", jsLit(op.K))
		case "clear":
			sb.WriteString("bs = {};\n")
		case "throw":
			sb.WriteString("throw new Error(\"boom\");\n")
		case "emitbad":
			sb.WriteString("_.out(0/0);\n")
		case "retnull":
			sb.WriteString("return null;\n")
		case "retbad":
			sb.WriteString("return 42;\n")
		case "retarr":
			sb.WriteString("return [1];\n")
		case "retzero":
			sb.WriteString("return 0;\n")
		case "retfalse":
			sb.WriteString("return false;\n")
		case "retempty":
			sb.WriteString("return \"\";\n")
		case "retfn":
			sb.WriteString("return function() { return 1; };\n")
		case "setundef":
			fmt.Fprintf(&sb, "bs[%s] = undefined;\n", jsLit(op.K))
		case "globalinc":
			sb.WriteString("var G = (new Function(\"return this\"))(); G.cnt = (G.cnt || 0) + 1; Math.cnt = (Math.cnt || 0) + 1; bs[\"g\"] = G.cnt + Math.cnt;\n")
		case "randstr":
			sb.WriteString("bs[\"r\"] = typeof _.randstr();\n")
		case "matchstore":
			// (extended interpreter) what the pattern matcher utility answers, kept in the bindings
			if op.K2 == "first" {
				fmt.Fprintf(&sb, "bs[%s] = _.match({\"a\": \"?x\"}, {\"a\": %s, \"b\": 2}, {})[0];\n", jsLit(op.K), jsLit(op.V))
			} else {
				fmt.Fprintf(&sb, "bs[%s] = _.match({\"a\": \"?x\"}, {\"a\": %s, \"b\": 2}, {});\n", jsLit(op.K), jsLit(op.V))
			}
		case "retdate":
			sb.WriteString("return new Date(0);\n")
		case "retcyclic":
			// a value that contains itself
			sb.WriteString("var cyc = [1]; cyc.push(cyc); return cyc;\n")
		case "throwplain":
			sb.WriteString("throw {\"code\": 42};\n")
		case "throwarr":
			sb.WriteString("throw [1, 2];\n")
		case "throwbare":
			// a thrown object without a prototype (nothing to turn it into a string with)
			sb.WriteString("throw Object.create(null);\n")
		case "throwhostile":
			// a thrown object whose conversion to a string fails itself
			sb.WriteString("throw {toString: function() { throw 1; }};\n")
		case "retgetter":
			// an object whose property fails when the interpreter reads the result
			sb.WriteString("return {get a() { throw new Error(\"getter\"); }};\n")
		case "require":
			fmt.Fprintf(&sb, "if (bs[%s] !== %s) { return null; }\n", jsLit(op.K), jsLit(op.V))
		case "propset":
			sb.WriteString("_.props.seen = (_.props.seen || 0) + 1; _.props.mid = \"rewritten\";\n")
		case "tick":
			sb.WriteString("_.props.tick();\n")
		case "spin":
			sb.WriteString("for (;;) { _.props.tick(); }\n")
		}
	}
	sb.WriteString("return bs;\n")
	return sb.String()
}

var errStub = errors.New("stub interpreter error")

// errList is an error made of several (like go/scanner.ErrorList): not hashable.
type errList []error

func (e errList) Error() string { return fmt.Sprintf("%d errors, first: %v", len(e), e[0]) }

// nativeHook, when set by a harness, runs at the start of every native action or guard.
var nativeHook func()

// nativeAction renders an action as a native Go action.  It never modifies its
// argument in place (a native action is trusted code handed the live map).
func nativeAction(a *ref.Action) *core.FuncAction {
	return &core.FuncAction{F: func(ctx context.Context, in match.Bindings, props core.StepProps) (*core.Execution, error) {
		switch a.Stub {
		case "nil-err":
			return nil, errStub
		case "slice-err":
			// an error value of a type that cannot be a map key
			return nil, errList{errStub, errStub}
		case "partial-err":
			exe := core.NewExecution(nil)
			exe.AddEmitted(map[string]interface{}{"partial": true})
			return exe, errStub
		case "nil-bs":
			return core.NewExecution(nil), nil
		case "no-events":
			// an Execution built by hand, without the constructor
			return &core.Execution{Bs: match.Bindings{"made": "by hand"}}, nil
		case "no-traces":
			// an Execution built by hand with an Events value of its own
			return &core.Execution{Bs: match.Bindings{"made": "by hand"}, Events: &core.Events{}}, nil
		case "same":
			return core.NewExecution(in), nil
		}
		if nativeHook != nil {
			nativeHook()
		}
		var w map[string]interface{}
		if in != nil && a.InPlace {
			w = map[string]interface{}(in)
		} else if in != nil {
			w = ref.CopyBs(map[string]interface{}(in))
		} else {
			w = map[string]interface{}{}
		}
		exe := core.NewExecution(nil)
		gi := 0.0
		for _, op := range a.Ops {
			switch op.Kind {
			case "emit":
				exe.AddEmitted(ref.CopyVal(op.V))
			case "emitb":
				exe.AddEmitted(map[string]interface{}{"got": ref.CopyVal(w[op.K])})
			case "set":
				w[op.K] = ref.CopyVal(op.V)
			case "setfrom":
				if v, ok := w[op.K2]; ok {
					w[op.K] = v
				}
			case "nest":
				if a.InPlace {
					// the map is the guard's to change, the values in it are shared with the
					// message and the state: replace, do not reach into them
					if v, ok := w[op.K]; ok {
						w[op.K] = ref.CopyVal(v)
					}
				}
				ref.NestInto(w[op.K], op.K2, op.V)
			case "require":
				if v, ok := w[op.K]; !ok || ref.Canon(v) != ref.Canon(op.V) {
					return exe, nil
				}
			case "del":
				delete(w, op.K)
			case "setundef":
				w[op.K] = nil
			case "globalinc":
				gi++
				w["g"] = 2 * gi
			case "randstr":
				w["r"] = fmt.Sprintf("%T", core.Gensym(8))
			case "matchstore":
				if op.K2 == "first" {
					w[op.K] = map[string]interface{}{"?x": ref.CopyVal(op.V)}
				} else {
					w[op.K] = []interface{}{map[string]interface{}{"?x": ref.CopyVal(op.V)}}
				}
			case "clear":
				if a.InPlace {
					for k := range w {
						delete(w, k)
					}
				} else {
					w = map[string]interface{}{}
				}
			case "throw":
				return nil, errors.New("boom")
			case "retbad", "retarr", "retfn", "retdate", "retgetter", "retcyclic", "throwbare", "throwhostile", "throwplain", "throwarr", "retzero", "retfalse", "retempty":
				return nil, fmt.Errorf("42 (int64) isn't Bindings")
			case "retnull":
				return exe, nil
			}
		}
		exe.Bs = match.Bindings(w)
		return exe, nil
	}}
}

var interpreters = core.InterpretersMap{"ecmascript": ecmascript.NewInterpreter(), "noop": noop.NewInterpreter()}

// interpretersExt: the same name bound to the extended interpreter (_.randstr, _.match, ...).
var interpretersExt = core.InterpretersMap{"ecmascript": &ecmascript.Interpreter{Extended: true}, "noop": noop.NewInterpreter()}

// genExt: the program being generated runs in the extended interpreter.
var genExt = false

// compile builds a fresh core.Spec from the generated one and compiles it.
func compile(s *ref.Spec) (*core.Spec, error) {
	spec := &core.Spec{
		Name:                "gen",
		Nodes:               map[string]*core.Node{},
		ActionErrorBranches: s.ActionErrorBranches,
		ActionErrorNode:     s.ActionErrorNode,
		NoAutoErrorNode:     s.NoAutoErrorNode,
		ErrorNode:           s.ErrorNode,
	}
	act := func(a *ref.Action) (core.Action, *core.ActionSource) {
		if a == nil {
			return nil, nil
		}
		if a.Noop {
			return nil, &core.ActionSource{Interpreter: "noop", Source: ""}
		}
		if a.Native {
			return nativeAction(a), nil
		}
		return nil, &core.ActionSource{Interpreter: "ecmascript", Source: renderJS(a)}
	}
	for name, n := range s.Nodes {
		cn := &core.Node{}
		if a, src := act(n.Action); a != nil {
			cn.Action = a
		} else {
			cn.ActionSource = src
		}
		if n.HasBr {
			cn.Branches = &core.Branches{Type: n.Type}
			for _, b := range n.Branches {
				cb := &core.Branch{Target: b.Target}
				if b.HasPat {
					cb.Pattern = ref.CopyVal(b.Pattern)
				}
				if g, src := act(b.Guard); g != nil {
					cb.Guard = g
				} else {
					cb.GuardSource = src
				}
				cn.Branches.Branches = append(cn.Branches.Branches, cb)
			}
		}
		spec.Nodes[name] = cn
	}
	ints := interpreters
	if genExt {
		ints = interpretersExt
	}
	if err := spec.Compile(context.Background(), ints, true); err != nil {
		return nil, err
	}
	return spec, nil
}

func toState(st ref.State) *core.State {
	var bs match.Bindings
	if st.Bs != nil {
		bs = match.Bindings(ref.CopyBs(st.Bs))
	}
	return &core.State{NodeName: st.Node, Bs: bs}
}

func specJSON(s *ref.Spec) string {
	b, _ := json.Marshal(s)
	return string(b)
}

var _ = math.NaN
