//go:build verif_sim

package ecmascript_test

// C04: every step of generated machines is compared with the reference
// machine (ref.Spec.Step), with action failures injected so all three
// error-routing modes are taken.

import (
	"context"
	"fmt"
	"sort"
	"strings"
	"testing"

	"github.com/Comcast/sheens/core"
	"github.com/Comcast/sheens/match"

	"verif/ref"
	"verif/sim"
)

func init() {
	registry["C04"] = runC04
}

func bsKeysOf(bs map[string]interface{}) string {
	ks := make([]string, 0, len(bs))
	for k := range bs {
		ks = append(ks, k)
	}
	sort.Strings(ks)
	return strings.Join(ks, ",")
}

// canonBs compares bindings by canonical JSON, ignoring the text of error
// strings (only their presence under the documented keys is specified).
func canonBs(bs map[string]interface{}) string {
	if bs == nil {
		return "null"
	}
	return ref.Canon(scrubErrors(bs))
}

// scrubErrors replaces the text under the documented error keys at any depth
// (a bare variable pattern can bind the whole bindings map).
func scrubErrors(x interface{}) interface{} {
	switch v := x.(type) {
	case map[string]interface{}:
		cp := make(map[string]interface{}, len(v))
		for k, e := range v {
			if k == "actionError" || k == "error" {
				cp[k] = "<error text>"
			} else {
				cp[k] = scrubErrors(e)
			}
		}
		return cp
	case match.Bindings:
		return scrubErrors(map[string]interface{}(v))
	case []interface{}:
		cp := make([]interface{}, len(v))
		for i, e := range v {
			cp[i] = scrubErrors(e)
		}
		return cp
	}
	return x
}

func canonList(xs []interface{}) string {
	if len(xs) == 0 {
		return "[]"
	}
	return ref.Canon(xs)
}

// compareStep checks one implementation stride against the reference result.
// It returns a description of the first difference ("" = agree) and the rule.
func compareStep(r ref.StepResult, stride *core.Stride, err error, pending interface{}) (rule, diff string) {
	switch r.Kind {
	case ref.Unspecified:
		return "", ""
	case ref.Error:
		if err != nil && r.Consumed && pending != nil && stride != nil && stride.Consumed == nil {
			return "consumed:on-error", fmt.Sprintf("the step failed (%s) at a message-branching node, and reports the pending message as not consumed", r.Class)
		}
		if err == nil {
			to := "nil"
			if stride != nil && stride.To != nil {
				to = stride.To.String()
			}
			return "error:" + r.Class, fmt.Sprintf("the documentation makes this step an error (%s) but Step returned no error (to=%s)", r.Class, to)
		}
		return "", ""
	}
	if err != nil {
		return "to:unexpected-error", fmt.Sprintf("Step returned error %q where the documented rule gives a normal result", err)
	}
	if stride == nil {
		return "to:nil-stride", "Step returned neither a stride nor an error"
	}
	consumed := stride.Consumed != nil
	if consumed != (r.Consumed && pending != nil) {
		return "consumed", fmt.Sprintf("consumed=%v, documented %v", consumed, r.Consumed)
	}
	if (stride.To == nil) != (r.To == nil) {
		if r.To == nil {
			return "to:moved", fmt.Sprintf("moved to %s where the documented rule stays", stride.To)
		}
		return "to:stayed", fmt.Sprintf("stayed where the documented rule moves to %s/%s", r.To.Node, canonBs(r.To.Bs))
	}
	if r.To != nil {
		if stride.To.NodeName != r.To.Node {
			return "to:node", fmt.Sprintf("went to node %q, documented %q", stride.To.NodeName, r.To.Node)
		}
		got, want := canonBs(map[string]interface{}(stride.To.Bs)), canonBs(r.To.Bs)
		if got != want {
			return "to:bindings", fmt.Sprintf("bindings %s, documented %s", got, want)
		}
	}
	if r.Class != "guard-emitted" {
		got, want := canonList(stride.Emitted), canonList(r.Emitted)
		if got != want {
			return "emitted", fmt.Sprintf("emitted %s, documented %s", got, want)
		}
	}
	return "", ""
}

func runC04(c *sim.Ctx, t *testing.T) {
	sim.Install(c)
	defer sim.Uninstall()
	cfg := genCfg{native: true, failOps: true, nullRet: true, permanents: true, badBranch: true, unknownNode: true, guards: true, guardEmits: true, loops: true, maxNodes: 5, multiCand: true, errorNode: true, varStrings: true, sameStub: true, globals: true, noop: true}
	// Fault: the host's context has ended before the step.  Only with programs whose actions
	// are all native (they ignore the context, so every rule applies unchanged - in
	// particular a failing action is still routed by the spec's error settings).
	deadCtx := c.Chance(1, 6, "deadctx")
	if deadCtx {
		cfg.nativeOnly = true
	}
	gs := genSpec(c, cfg)
	spec, err := compile(gs)
	if err != nil {
		c.Infra = "generated spec does not compile: " + err.Error() + "\n" + specJSON(gs)
		return
	}
	ctx := context.Background()
	if deadCtx {
		dead, cancel := context.WithCancel(ctx)
		cancel()
		ctx = dead
		c.Count("runs_with_a_cancelled_context")
	}
	ntrials := 4 + c.Intn(8, "ntrials")
	paths := ""
	interesting := 0
	var lastMsg, lastMsgObj interface{}
	for i := 0; i < ntrials; i++ {
		if i == ntrials/2 && c.Chance(1, 3, "editspec") {
			// the host edits the live spec in place (one branch gets another pattern) and
			// compiles it again: what was learnt about the old pattern must be forgotten
			names := nodeNames(gs)
			name := names[c.Intn(len(names), "editnode")]
			if n := gs.Nodes[name]; n != nil && len(n.Branches) > 0 && spec.Nodes[name] != nil && spec.Nodes[name].Branches != nil {
				bi := c.Intn(len(n.Branches), "editbranch")
				if n.Branches[bi].HasPat && bi < len(spec.Nodes[name].Branches.Branches) {
					keys := msgKeys
					if n.Type != "message" {
						keys = bsKeys
					}
					pat := map[string]interface{}{keys[c.Intn(len(keys), "editkey")]: []interface{}{"?w", 1.0, "x"}[c.Intn(3, "editval")]}
					n.Branches[bi].Pattern = pat
					spec.Nodes[name].Branches.Branches[bi].Pattern = ref.CopyVal(pat)
					ints := interpreters
					if genExt {
						ints = interpretersExt
					}
					if err := spec.Compile(context.Background(), ints, true); err != nil {
						c.Infra = "edited spec does not compile: " + err.Error()
						return
					}
					c.Count("specs_edited_and_recompiled")
				}
			}
		}
		st := genState(c, gs, cfg)
		var pending interface{}
		if !c.Chance(1, 5, "nopending") {
			pending = genMessage(c)
		}
		// a host fanning one message out hands the very same object to several machines
		sameObj := false
		if lastMsg != nil && c.Chance(1, 4, "samemessage") {
			pending, sameObj = lastMsg, true
		}
		r := gs.Step(st, pending)
		var (
			stride *core.Stride
			serr   error
		)
		in := toState(st)
		if n, have := gs.Nodes[st.Node]; have && n.Action == nil && c.Chance(1, 8, "absentbindings") {
			// a state that was stored without bindings: no bindings are empty bindings (at a
			// node with an action the script would not even see a _.bindings: not compared)
			st.Bs = map[string]interface{}{}
			r = gs.Step(st, pending)
			in = &core.State{NodeName: st.Node}
			c.Count("states_without_bindings")
		}
		var ctl *core.Control
		if c.Bool("ctl") {
			ctl = &core.Control{Limit: 10}
		}
		if c.Guard(fmt.Sprintf("Step from %s/%s pending %s", st.Node, ref.Canon(st.Bs), ref.Canon(pending)), func() {
			obj := ref.CopyVal(pending)
			if sameObj && lastMsgObj != nil {
				obj = lastMsgObj
			}
			lastMsg, lastMsgObj = pending, obj
			stride, serr = spec.Step(ctx, in, obj, ctl, nil)
		}) {
			c.Logf("spec: %s", specJSON(gs))
			return
		}
		c.Count("steps")
		c.Count("ref_" + r.Kind)
		if r.Class != "" {
			c.Count("rule_" + r.Class)
		}
		if r.ActionFailed {
			c.Count("action_failures_injected")
		}
		paths += r.Kind[:1] + r.Class + fmt.Sprint(r.To != nil, r.Consumed, len(r.Emitted)) + ";"
		if r.To != nil || r.Kind == ref.Error {
			interesting++
		}
		c.Logf("step from %s/%s pending=%s -> ref %s %s to=%v; impl err=%v", st.Node, ref.Canon(st.Bs), ref.Canon(pending), r.Kind, r.Class, r.To, serr)
		if rule, diff := compareStep(r, stride, serr, pending); diff != "" {
			c.Violate("step:"+rule, "at node %q (%s) with bindings %s and pending %s: %s\nspec: %s",
				st.Node, nodeDesc(gs, st.Node), ref.Canon(st.Bs), ref.Canon(pending), diff, specJSON(gs))
			return
		}
	}
	c.MixHash(paths)
	c.Path = paths
	c.Trivial = interesting == 0
	c.Sample = map[string]interface{}{"spec": gs, "steps": ntrials, "outcomes": paths}
}

func nodeDesc(s *ref.Spec, name string) string {
	n, ok := s.Nodes[name]
	if !ok {
		return "not in the spec"
	}
	d := "no action"
	if n.Action != nil {
		d = "action"
		if n.Action.Native {
			d = "native action"
		}
	}
	if !n.HasBr {
		return d + ", no branching"
	}
	t := n.Type
	if t == "" {
		t = "default"
	}
	return fmt.Sprintf("%s, %s branching, %d branches", d, t, len(n.Branches))
}
