//go:build verif_sim

package ecmascript_test

// C10: isolation of ECMAScript executions.  Polluter scripts attack every
// channel (bindings in place at depth, the global object, built-in prototypes,
// the members of the environment object, step properties); probe scripts report
// what they can see.  Sequences (same and different compiled sources) and
// concurrent executions of shared compiled programs interleaved at tick()
// yields under the serial scheduler, race monitor on.

import (
	"context"
	"fmt"
	"math"
	"strings"
	"testing"
	"time"

	"github.com/Comcast/sheens/core"
	"github.com/Comcast/sheens/interpreters/ecmascript"
	"github.com/Comcast/sheens/match"

	"verif/ref"
	"verif/sim"
)

func init() {
	registry["C10/sequence"] = func(c *sim.Ctx, t *testing.T) { runC10(c, t, false) }
	registry["C10/concurrent"] = func(c *sim.Ctx, t *testing.T) { runC10(c, t, true) }
}

var c10Attacks = []struct{ name, js string }{
	{"global", `G.leak = "L";`},
	{"global-fn", `G.helper = function() { return 1; };`},
	{"proto-object", `Object.prototype.evil = "E";`},
	{"proto-array", `Array.prototype.push = function() { return 42; };`},
	{"builtin-json", `JSON.stringify = function() { return "hacked"; };`},
	{"bindings-nested", `_.bindings.n.q = 99;`},
	{"bindings-array", `_.bindings.arr[0] = 7; _.bindings.arr.length = 0;`},
	{"bindings-delete", `delete _.bindings.keep;`},
	{"bindings-in-array", `_.bindings.deep[0].k[1].z = 9; _.bindings.deep[0].added = 1; _.bindings.deep[1][0] = "x";`},
	{"env-out", `_.out = function() { return null; };`},
	{"env-bindings", `_.bindings = {"replaced": true};`},
	{"env-props", `_.props = {"mid": "fake"};`},
	{"env-self", `G._ = {"bindings": {}, "props": {}, "out": function() {}};`},
	{"env-member", `_.stash = {"secret": "s3cret"}; _.bindings.leftover = "L";`},
	{"bindings-permanent", `_.bindings["cfg!"].limits.max = 0; _.bindings["cfg!"].added = 1;`},
	{"props-top", `_.props.mid = "evil"; _.props.extra = 1;`},
	{"props-nested", `_.props.cfg.x = 42;`},
	{"frozen", `Object.freeze(Object.prototype); Object.freeze(Array.prototype);`},
	{"define", `Object.defineProperty(Object.prototype, "sneaky", {get: function() { return "S"; }});`},
	{"props-proto", `var pp = Object.getPrototypeOf(_.props); if (pp) { pp.mid = "evil"; pp.extra = 1; } if (_.props.__proto__) { _.props.__proto__.cfg = {"x": 42}; }`},
	{"global-objects", `Object.getOwnPropertyNames(G).forEach(function(n) { try { var v = G[n]; if (v && typeof v === "object") { v.muted = true; if (typeof v.log === "function") { v.log = function() { return "hijacked"; }; } } } catch (e) {} });`},
	// (extended interpreter only) whatever the matcher utility hands back is the script's to change
	{"match-result", `var r = _.match({"zz": "?x"}, {"zz": 1}); if (r && r[0]) { if (r[0].n) { r[0].n.q = 98; } if (r[0].arr) { r[0].arr[0] = 6; } if (r[0].deep) { r[0].deep[0].added = 2; } r[0].keep = "changed"; }`},
}

const c10Probe = `
var tick = _.props.tick || function() {};
tick();
var G = (new Function("return this"))();
var r = {};
r.leak = typeof G.leak;
r.helper = typeof G.helper;
r.evil = typeof ({}).evil;
r.sneaky = typeof ({}).sneaky;
var a = []; r.push = a.push(1); r.alen = a.length;
r.json = JSON.stringify({"a": 1});
r.out = typeof _.out;
r.envb = typeof _.bindings.replaced;
r.mid = _.props.mid;
r.extra = typeof _.props.extra;
r.cfgx = (_.props.cfg || {}).x; if (r.cfgx === undefined) { r.cfgx = null; } if (r.mid === undefined) { r.mid = null; }
r.frozen = Object.isFrozen(Object.prototype);
var gsig = [];
Object.getOwnPropertyNames(G).sort().forEach(function(n) {
  var v; try { v = G[n]; } catch (e) { return; }
  if (n == "_") { return; }
  if (v && typeof v === "object") { gsig.push(n + ":" + Object.getOwnPropertyNames(v).sort().join("|")); } else { gsig.push(n + ":" + typeof v); }
});
r.globals = gsig.join(";");
r.env = Object.keys(_).sort().join(",");
r.n = _.bindings.n; r.arr = _.bindings.arr; r.keep = _.bindings.keep; r.id = _.bindings.id; r.deep = _.bindings.deep;
tick();
_.out({"probe": r.leak, "id": _.bindings.id});
return r;
`

// c10PolluterNull: whether polluters end by rejecting (returning null), as a guard does,
// instead of returning bindings.
var c10PolluterNull = false

// c10PolluterThrows: polluters end by throwing (a failed action: whatever it defined or
// altered before must be as invisible as after a success).
var c10PolluterThrows = false

func c10Polluter(attacks []int) string {
	var sb strings.Builder
	sb.WriteString("var tick = _.props.tick || function() {}; var G = (new Function(\"return this\"))();\n")
	for i, a := range attacks {
		fmt.Fprintf(&sb, "try { %s } catch (e) {}\n", c10Attacks[a].js)
		if i%2 == 0 {
			sb.WriteString("tick();\n")
		}
	}
	if c10PolluterThrows {
		sb.WriteString("throw new Error(\"the polluter fails in the end\");\n")
	} else if c10PolluterNull {
		sb.WriteString("return null;\n")
	} else {
		sb.WriteString("return {\"polluted\": true, \"id\": (_.bindings && _.bindings.id) || null};\n")
	}
	return sb.String()
}

// c10Baseline: what a probe finds among the globals and in the environment object of a
// runtime of this build - taken from the first probe of the executor process, before any
// polluter has run in it (a feature that adds a global is part of the baseline; what a
// script does to it is not).
var c10Baseline = map[string]string{}

func c10Expected(id float64, emptyProps bool) (string, string) {
	r := map[string]interface{}{
		"leak": "undefined", "helper": "undefined", "evil": "undefined", "sneaky": "undefined", "push": 1.0, "alen": 1.0,
		"json": `{"a":1}`, "out": "function", "envb": "undefined", "mid": "m1", "extra": "undefined", "cfgx": 1.0, "frozen": false,
		"n": map[string]interface{}{"q": 1.0}, "arr": []interface{}{1.0}, "keep": "k", "id": id,
		"deep": []interface{}{map[string]interface{}{"k": []interface{}{1.0, map[string]interface{}{"z": 1.0}}}, []interface{}{1.0}},
	}
	if emptyProps {
		r["mid"], r["cfgx"] = nil, nil
	}
	return ref.Canon(r), ref.Canon([]interface{}{map[string]interface{}{"probe": "undefined", "id": id}})
}

type c10Exec struct {
	polluter bool
	attacks  []int
	prog     int // index of the compiled program used
}

// c10NilScripts: executions that are handed no bindings at all (a machine's first step
// from a state without bindings, or a host calling Exec(ctx, nil, ...)).  A polluter
// writes into whatever _.bindings is; a probe reports what it finds there.
var c10NilPolluter = `var b = _.bindings; if (b) { try { b.leak = "L"; b.nested = {"n": 1}; } catch (e) {} } _.out({"polluter": true}); return b || {"fresh": true};`
var c10NilProbe = `var b = _.bindings; var ks = []; if (b) { for (var k in b) { ks.push(k); } } ks.sort(); return {"found": ks.join(",")};`

func runC10Nil(c *sim.Ctx, t *testing.T, concurrent bool) {
	interp := ecmascript.NewInterpreter()
	ctx := context.Background()
	nexec := 2 + c.Intn(6, "nexec")
	probe := make([]bool, nexec)
	for i := range probe {
		probe[i] = c.Bool("probe")
	}
	probe[nexec-1] = true
	got := make([]string, nexec)
	kept := make([]*core.Execution, nexec)
	one := func(i int) {
		src := c10NilPolluter
		if probe[i] {
			src = c10NilProbe
		}
		exe, err := interp.Exec(ctx, nil, core.StepProps{"mid": "m1"}, src, nil)
		if err != nil {
			got[i] = "error: " + err.Error()
			return
		}
		kept[i] = exe
		got[i] = ref.Canon(map[string]interface{}(exe.Bs))
	}
	if concurrent {
		c.PermuteOff = true
		sim.Bubble(c, t, func(s *sim.Sched) {
			s.MaxSteps = 4000
			for i := 0; i < nexec; i++ {
				i := i
				s.Go(fmt.Sprintf("x%d", i), func(tk *sim.Task) { one(i) })
			}
			s.Run()
			s.Drain(300)
		})
	} else {
		sim.Install(c)
		for i := 0; i < nexec; i++ {
			if c.Guard("Exec", func() { one(i) }) {
				sim.Uninstall()
				return
			}
		}
		sim.Uninstall()
	}
	shape := "nil:"
	for i := range got {
		c.Count("executions")
		c.Count("executions_without_bindings")
		if probe[i] {
			shape += "p"
			if got[i] != `{"found":""}` {
				c.Violate("isolation:probe-sees:bindings", "probe %d, executed without bindings (plan %v, concurrent=%v), found %s in _.bindings; alone it finds nothing", i, probe, concurrent, got[i])
			}
		} else {
			shape += "x"
			// what an earlier execution returned stays what it was
			if kept[i] != nil {
				if now := ref.Canon(map[string]interface{}(kept[i].Bs)); now != got[i] {
					c.Violate("isolation:result-changed-later", "the bindings execution %d returned were %s and are %s after later executions", i, got[i], now)
				}
			}
		}
	}
	c.MixHash(shape)
	c.Path = shape + fmt.Sprint(concurrent)
	if c.Sched != nil {
		c.Path += fmt.Sprintf("%016x", c.Sched.Hash)
	}
	c.Sample = map[string]interface{}{"plan": shape, "polluter": c10NilPolluter, "probe": c10NilProbe, "concurrent": concurrent}
}

func runC10(c *sim.Ctx, t *testing.T, concurrent bool) {
	if c.Chance(1, 8, "nobindings") {
		runC10Nil(c, t, concurrent)
		return
	}
	interp := ecmascript.NewInterpreter()
	extended := c.Bool("extended")
	if extended {
		interp = &ecmascript.Interpreter{Extended: true}
	}
	baseKey := fmt.Sprint(extended) + ":"
	if _, have := c10Baseline[baseKey+"globals"]; !have {
		// (no simulator installed yet: this execution draws nothing and is no part of the run)
		base := &ecmascript.Interpreter{Extended: extended}
		exe, err := base.Exec(context.Background(), match.Bindings{"n": map[string]interface{}{"q": 1.0}, "arr": []interface{}{1.0}, "keep": "k", "id": 0.0,
			"deep": []interface{}{map[string]interface{}{"k": []interface{}{1.0, map[string]interface{}{"z": 1.0}}}, []interface{}{1.0}}},
			core.StepProps{"mid": "m1", "cfg": map[string]interface{}{"x": 1.0}}, c10Probe, nil)
		if err != nil || exe == nil {
			c.Infra = fmt.Sprint("baseline probe failed: ", err)
			return
		}
		g, _ := exe.Bs["globals"].(string)
		e, _ := exe.Bs["env"].(string)
		c10Baseline[baseKey+"globals"], c10Baseline[baseKey+"env"] = g, e
	}
	ctx := context.Background()
	// programs: one probe, 1-3 polluters
	type prog struct {
		src      string
		compiled interface{}
		attacks  []int
		action   core.Action
	}
	var progs []prog
	// half of the runs go through the compiled action of a specification (one
	// core.Action shared by all executions, as the machines of a crew share it), the
	// others call the interpreter directly
	viaAction := c.Bool("viaaction")
	comp := func(src string, attacks []int) {
		x, err := interp.Compile(ctx, src)
		if err != nil {
			c.Infra = "script does not compile: " + err.Error()
		}
		var act core.Action
		if viaAction {
			as := &core.ActionSource{Interpreter: "ecmascript", Source: src}
			if act, err = as.Compile(ctx, core.InterpretersMap{"ecmascript": interp}); err != nil {
				c.Infra = "action source does not compile: " + err.Error()
			}
		}
		progs = append(progs, prog{src, x, attacks, act})
	}
	// a third of the runs: polluters reject like guards (return null), and all executions
	// are handed equal bindings (what one leaves behind must not reach the next one through
	// anything that is remembered per bindings value)
	c10PolluterNull = c.Chance(1, 3, "rejecting")
	sameIds := c10PolluterNull
	c10PolluterThrows = !c10PolluterNull && c.Chance(1, 4, "throwing")
	comp(c10Probe, nil)
	np := 1 + c.Intn(3, "npolluters")
	for i := 0; i < np; i++ {
		var attacks []int
		for j := range c10Attacks {
			if c.Chance(1, 3, "attack") {
				attacks = append(attacks, j)
			}
		}
		if len(attacks) == 0 {
			attacks = []int{c.Intn(len(c10Attacks), "oneattack")}
		}
		comp(c10Polluter(attacks), attacks)
	}
	if c.Infra != "" {
		return
	}
	nexec := 2 + c.Intn(6, "nexec")
	plan := make([]int, nexec) // program index per execution
	for i := range plan {
		if c.Bool("probe") {
			plan[i] = 0
		} else {
			plan[i] = 1 + c.Intn(np, "which")
		}
	}
	plan[nexec-1] = 0 // always end with a probe
	useCompiled := c.Bool("precompiled")
	emptyProps := !concurrent && c.Chance(1, 3, "emptyprops")
	nanBindings := c.Chance(1, 5, "nanbindings")
	permBinding := c.Chance(1, 3, "permbinding")

	type result struct {
		bsBefore, bsAfter, propsBefore, propsAfter string
		got, emitted, err                          string
		perm, wantPerm                             string
	}
	results := make([]result, nexec)
	propsCanon := func(p core.StepProps) string {
		cp := map[string]interface{}{}
		for k, v := range p {
			if k != "tick" {
				cp[k] = v
			}
		}
		return ref.Canon(cp)
	}
	// a third of the concurrent runs give every execution a deadline that it meets with room
	// to spare when it runs alone (at most 10 ticks of 1 ms against 20 ms): beside others it
	// must meet it just as well - executions do not wait for each other
	deadlines := concurrent && c.Chance(1, 3, "deadlines")
	one := func(i int, tick func()) {
		ctx := ctx
		if deadlines {
			var cancel context.CancelFunc
			ctx, cancel = context.WithTimeout(ctx, 20*time.Millisecond)
			defer cancel()
		}
		pg := progs[plan[i]]
		id := float64(i)
		if sameIds {
			id = 0
		}
		bs := match.Bindings{"n": map[string]interface{}{"q": 1.0}, "arr": []interface{}{1.0}, "keep": "k", "id": id,
			"deep": []interface{}{map[string]interface{}{"k": []interface{}{1.0, map[string]interface{}{"z": 1.0}}}, []interface{}{1.0}}}
		props := core.StepProps{"mid": "m1", "cfg": map[string]interface{}{"x": 1.0}, "tick": tick}
		if emptyProps {
			props = core.StepProps{} // a host that passes empty, non-nil properties
		}
		if permBinding {
			// a permanent binding with a structured value
			bs["cfg!"] = map[string]interface{}{"limits": map[string]interface{}{"max": 10.0}}
		}
		if nanBindings {
			// a value an earlier action computed (say sum/count with count == 0): the copy
			// the interpreter makes of the bindings cannot be made through JSON
			bs["avg"] = math.NaN()
		}
		r := &results[i]
		r.bsBefore, r.propsBefore = typedCanon(bs), propsCanon(props)
		var compiled interface{}
		if useCompiled {
			compiled = pg.compiled
		}
		var exe *core.Execution
		var err error
		if viaAction {
			// bindings every machine keeps whatever its actions return; they differ per execution
			bs["owner!"] = fmt.Sprintf("o%d", i)
			if i%2 == 0 {
				bs[fmt.Sprintf("token%d!", i)] = float64(i)
			}
			r.bsBefore = typedCanon(bs)
			exe, err = pg.action.Exec(ctx, bs, props)
		} else {
			exe, err = interp.Exec(ctx, bs, props, pg.src, compiled)
		}
		r.bsAfter, r.propsAfter = typedCanon(bs), propsCanon(props)
		if err != nil {
			r.err = err.Error()
			return
		}
		if viaAction && exe != nil && exe.Bs != nil {
			// exactly this execution's permanent bindings come back, then compare the rest
			want := map[string]interface{}{"owner!": fmt.Sprintf("o%d", i)}
			if i%2 == 0 {
				want[fmt.Sprintf("token%d!", i)] = float64(i)
			}
			if permBinding {
				want["cfg!"] = map[string]interface{}{"limits": map[string]interface{}{"max": 10.0}}
			}
			gotPerm := map[string]interface{}{}
			rest := map[string]interface{}{}
			for k, v := range exe.Bs {
				if strings.HasSuffix(k, "!") {
					gotPerm[k] = v
				} else {
					rest[k] = v
				}
			}
			r.perm, r.wantPerm = ref.Canon(gotPerm), ref.Canon(want)
			r.got = ref.Canon(rest)
			r.emitted = canonList(exe.Emitted)
			return
		}
		r.got = ref.Canon(map[string]interface{}(exe.Bs))
		r.emitted = canonList(exe.Emitted)
	}
	if concurrent {
		c.PermuteOff = true
		sim.Bubble(c, t, func(s *sim.Sched) {
			s.MaxSteps = 4000
			for i := 0; i < nexec; i++ {
				i := i
				s.Go(fmt.Sprintf("x%d", i), func(tk *sim.Task) {
					one(i, func() {
						sim.Yield("h#tick")
						if deadlines {
							sim.Sleep(time.Millisecond)
						}
					})
				})
			}
			s.Run()
			s.Drain(300)
		})
		c.Add("steps_with_choice", c.Sched.Switches)
	} else {
		sim.Install(c)
		for i := 0; i < nexec; i++ {
			if c.Guard("Exec", func() { one(i, func() {}) }) {
				sim.Uninstall()
				return
			}
		}
		sim.Uninstall()
	}
	shape := ""
	for i, r := range results {
		pg := progs[plan[i]]
		what := "probe"
		if plan[i] != 0 {
			var names []string
			for _, a := range pg.attacks {
				names = append(names, c10Attacks[a].name)
			}
			what = "polluter(" + strings.Join(names, ",") + ")"
		}
		shape += fmt.Sprint(plan[i])
		c.Count("executions")
		if r.bsAfter != r.bsBefore {
			c.Violate("isolation:caller-bindings", "execution %d (%s) changed the caller's bindings: %s -> %s", i, what, r.bsBefore, r.bsAfter)
		}
		if r.propsAfter != r.propsBefore {
			sig := "isolation:caller-props-top"
			if strings.Contains(r.propsAfter, `"x":42`) && !strings.Contains(r.propsAfter, "evil") {
				sig = "isolation:caller-props-nested"
			}
			c.Violate(sig, "execution %d (%s) changed the caller's step properties: %s -> %s", i, what, r.propsBefore, r.propsAfter)
		}
		if r.perm != r.wantPerm {
			c.Violate("isolation:permanent-bindings", "execution %d (%s, plan %v, concurrent=%v) through the shared compiled action came back with permanent bindings %s, its own are %s", i, what, plan, concurrent, r.perm, r.wantPerm)
		}
		if nanBindings {
			// the execution may legitimately fail (its bindings cannot be copied); only the
			// caller's side is asserted
			c.Count("executions_with_unencodable_bindings")
			continue
		}
		if plan[i] == 0 {
			c.Count("probes")
			wid := float64(i)
			if sameIds {
				wid = 0
			}
			wantBs, wantOut := c10Expected(wid, emptyProps)
			if r.err != "" {
				c.Violate("isolation:probe-failed", "probe %d failed with %q (executions before it: %v)", i, r.err, plan[:i])
				continue
			}
			// the probe's view of the global objects and of the environment object is compared
			// with this process's baseline, everything else with constants
			var gm map[string]interface{}
			if jsonUnmarshal(r.got, &gm) == nil {
				for _, k := range []string{"globals", "env"} {
					v, _ := gm[k].(string)
					if want := c10Baseline[baseKey+k]; v != want {
						c.Violate("isolation:probe-sees:"+k, "probe %d (plan %v, concurrent=%v) found %s = %q; in a runtime nobody has touched it is %q", i, plan, concurrent, k, v, want)
					}
					delete(gm, k)
				}
				r.got = ref.Canon(gm)
			}
			if r.got != wantBs {
				c.Violate("isolation:probe-sees:"+c10Diff(r.got, wantBs), "probe %d (plan %v, concurrent=%v) observed %s\n  a clean runtime gives %s", i, plan, concurrent, r.got, wantBs)
			}
			if r.emitted != wantOut {
				c.Violate("isolation:probe-emitted", "probe %d emitted %s, expected %s", i, r.emitted, wantOut)
			}
		} else {
			c.Count("polluters")
			if c10PolluterThrows {
				c.Count("polluters_that_fail")
				if !strings.Contains(r.err, "the polluter fails in the end") {
					c.Violate("isolation:polluter-failed", "polluter %d (%s) was to fail with its own error, got: %q", i, what, r.err)
				}
			} else if r.err != "" {
				c.Violate("isolation:polluter-failed", "polluter %d (%s) failed: %s", i, what, r.err)
			}
		}
	}
	c.MixHash(shape)
	c.Path = shape + fmt.Sprint(concurrent, useCompiled, emptyProps, nanBindings, viaAction, deadlines, sameIds)
	for _, pg := range progs[1:] {
		c.Path += fmt.Sprint(pg.attacks)
	}
	if c.Sched != nil {
		c.Path += fmt.Sprintf("%016x", c.Sched.Hash)
	}
	c.Sample = map[string]interface{}{"plan": plan, "polluter": progs[1].src, "concurrent": concurrent}
}

// c10Diff names the first probe field that differs, for the signature.
func c10Diff(got, want string) string {
	var g, w map[string]interface{}
	if jsonUnmarshal(got, &g) != nil || jsonUnmarshal(want, &w) != nil {
		return "unparsable"
	}
	var keys []string
	for k := range w {
		keys = append(keys, k)
	}
	sortStrings(keys)
	for _, k := range keys {
		if ref.Canon(g[k]) != ref.Canon(w[k]) {
			return k
		}
	}
	return "extra"
}
