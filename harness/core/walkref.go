//go:build verif_sim

package ecmascript_test

import (
	"reflect"

	"github.com/Comcast/sheens/core"
	"github.com/Comcast/sheens/match"

	"verif/ref"
)

func fromCoreState(st *core.State) ref.State {
	if st == nil {
		return ref.State{}
	}
	var bs map[string]interface{}
	if st.Bs != nil {
		bs = ref.CopyBs(normalize(map[string]interface{}(st.Bs)).(map[string]interface{}))
	}
	return ref.State{Node: st.NodeName, Bs: bs}
}

// normalize converts sheens' typed maps into plain maps (values untouched).
func normalize(x interface{}) interface{} {
	switch v := x.(type) {
	case match.Bindings:
		return normalize(map[string]interface{}(v))
	case map[string]interface{}:
		m := make(map[string]interface{}, len(v))
		for k, e := range v {
			m[k] = normalize(e)
		}
		return m
	case []interface{}:
		a := make([]interface{}, len(v))
		for i, e := range v {
			a[i] = normalize(e)
		}
		return a
	case int64:
		return float64(v)
	case int:
		return float64(v)
	}
	return x
}

func stateCanon(st *core.State) string {
	if st == nil {
		return "nil"
	}
	if st.Bs == nil {
		return st.NodeName + "/null"
	}
	return st.NodeName + "/" + ref.Canon(map[string]interface{}(st.Bs))
}

func mapPtr(m interface{}) uintptr {
	v := reflect.ValueOf(m)
	if v.Kind() != reflect.Map || v.IsNil() {
		return 0
	}
	return v.Pointer()
}

func copyMsgs(ms []interface{}) []interface{} {
	out := make([]interface{}, len(ms))
	for i, m := range ms {
		out[i] = ref.CopyVal(m)
	}
	return out
}

func allEmitted(w *core.Walked) []interface{} {
	var out []interface{}
	w.DoEmitted(func(x interface{}) error {
		out = append(out, x)
		return nil
	})
	return out
}
