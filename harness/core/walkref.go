//go:build verif_sim

package ecmascript_test

import (
	"fmt"
	"reflect"
	"sort"
	"strconv"
	"strings"

	"github.com/Comcast/sheens/core"
	"github.com/Comcast/sheens/match"

	"verif/ref"
)

func fromCoreState(st *core.State) ref.State {
	if st == nil {
		return ref.State{}
	}
	var bs map[string]interface{}
	if st.Bs != nil {
		bs = ref.CopyBs(normalize(map[string]interface{}(st.Bs)).(map[string]interface{}))
	}
	return ref.State{Node: st.NodeName, Bs: bs}
}

// normalize converts sheens' typed maps into plain maps (values untouched).
func normalize(x interface{}) interface{} {
	switch v := x.(type) {
	case match.Bindings:
		return normalize(map[string]interface{}(v))
	case map[string]interface{}:
		m := make(map[string]interface{}, len(v))
		for k, e := range v {
			m[k] = normalize(e)
		}
		return m
	case []interface{}:
		a := make([]interface{}, len(v))
		for i, e := range v {
			a[i] = normalize(e)
		}
		return a
	case int64:
		return float64(v)
	case int:
		return float64(v)
	}
	return x
}

func stateCanon(st *core.State) string {
	if st == nil {
		return "nil"
	}
	if st.Bs == nil {
		return st.NodeName + "/null"
	}
	// error text is scrubbed: it can name either of two offending keys depending on map order
	return st.NodeName + "/" + canonBs(map[string]interface{}(st.Bs))
}

func mapPtr(m interface{}) uintptr {
	v := reflect.ValueOf(m)
	if v.Kind() != reflect.Map || v.IsNil() {
		return 0
	}
	return v.Pointer()
}

func copyMsgs(ms []interface{}) []interface{} {
	out := make([]interface{}, len(ms))
	for i, m := range ms {
		out[i] = ref.CopyVal(m)
	}
	return out
}

func allEmitted(w *core.Walked) []interface{} {
	var out []interface{}
	w.DoEmitted(func(x interface{}) error {
		out = append(out, x)
		return nil
	})
	return out
}

// typedCanon renders a value canonically *with the Go type of every number*,
// so that an in-place rewrite of int(7) to float64(7) shows (JSON would hide it).
func typedCanon(x interface{}) string {
	switch v := x.(type) {
	case nil:
		return "null"
	case bool:
		return strconv.FormatBool(v)
	case float64:
		return "f" + strconv.FormatFloat(v, 'g', -1, 64)
	case string:
		return strconv.Quote(v)
	case match.Bindings:
		return typedCanon(map[string]interface{}(v))
	case map[string]interface{}:
		ks := make([]string, 0, len(v))
		for k := range v {
			ks = append(ks, k)
		}
		sort.Strings(ks)
		parts := make([]string, 0, len(ks))
		for _, k := range ks {
			parts = append(parts, strconv.Quote(k)+":"+typedCanon(v[k]))
		}
		return "{" + strings.Join(parts, ",") + "}"
	case []interface{}:
		parts := make([]string, 0, len(v))
		for _, e := range v {
			parts = append(parts, typedCanon(e))
		}
		return "[" + strings.Join(parts, ",") + "]"
	default:
		return fmt.Sprintf("%T(%v)", x, x)
	}
}

// typify replaces some integral float64 numbers by other Go number types (as a
// host that builds messages in Go, or an earlier action, would leave them).
func typify(draw func(n int) int, x interface{}) interface{} {
	switch v := x.(type) {
	case float64:
		if v == float64(int64(v)) {
			switch draw(4) {
			case 1:
				return int(v)
			case 2:
				return int64(v)
			}
		}
		return v
	case map[string]interface{}:
		for k, e := range v {
			v[k] = typify(draw, e)
		}
		return v
	case []interface{}:
		for i, e := range v {
			v[i] = typify(draw, e)
		}
		return v
	}
	return x
}
