//go:build verif_sim

package ecmascript_test

// C03: Match as a pure function.  (order) every map iteration inside the
// matcher gets an independent permutation - enumerated exhaustively per triple
// where the space is small, tape-sampled beyond - and the outcome must not
// depend on it; arguments are snapshotted; results must be independent maps.
// (concurrent) several tasks match the same pattern/message/bindings objects
// under the serial scheduler with the race monitor.

import (
	"fmt"
	"sort"
	"strings"
	"testing"

	"github.com/Comcast/sheens/match"

	"verif/ref"
	"verif/sim"
)

func init() {
	registry["C03/order"] = runC03Order
	registry["C03/concurrent"] = runC03Concurrent
}

var c03Subs = []interface{}{
	map[string]interface{}{"p": 1.0},
	map[string]interface{}{"p": 1.0, "q": 2.0},
	map[string]interface{}{"p": 1.0, "q": 2.0, "r": 3.0},
	map[string]interface{}{"p": 2.0},
	map[string]interface{}{"q": 2.0},
	[]interface{}{1.0},
	[]interface{}{1.0, 2.0},
	1.0, 2.0, "s", true, nil,
	// numbers as a Go host (or an earlier action) leaves them
	int(2), int64(1), map[string]interface{}{"p": int64(1)}, []interface{}{int(1), 2.0},
}

func c03Sub(c *sim.Ctx) interface{} { return ref.CopyVal(c03Subs[c.Intn(len(c03Subs), "sub")]) }

func c03Var(c *sim.Ctx) string {
	return []string{"?x", "?x", "?y", "?", "??o", "?<n", "?z"}[c.Intn(7, "var")]
}

// c03Pattern generates patterns biased to order-sensitive shapes.
func c03Pattern(c *sim.Ctx, depth int) interface{} {
	switch k := c.Intn(10, "pshape"); {
	case k <= 3 || depth >= 2: // map with variables (possibly repeated) and constants
		p := map[string]interface{}{}
		n := 1 + c.Intn(3, "pkeys")
		for i := 0; i < n; i++ {
			key := []string{"a", "b", "c", "d"}[c.Intn(4, "pkey")]
			switch c.Intn(6, "pval") {
			case 0, 1, 2:
				p[key] = c03Var(c)
			case 3:
				p[key] = c03Sub(c)
			case 4:
				if depth < 2 {
					p[key] = c03Pattern(c, depth+1)
				} else {
					p[key] = c03Var(c)
				}
			case 5:
				p[key] = []string{"s", "t"}[c.Intn(2, "pconst")]
			}
		}
		return p
	case k == 4: // property variable, alone or (invalidly) with siblings
		p := map[string]interface{}{[]string{"?k", "?x", "?"}[c.Intn(3, "pvar")]: c03PatVal(c, depth)}
		if c.Chance(1, 3, "badprop") {
			p["z"] = 2.0
		}
		return p
	case k == 5: // a key that merely fails next to a key that is invalid
		return map[string]interface{}{
			"a": map[string]interface{}{"?k": 1.0, "z": 2.0},
			"b": []interface{}{5.0, 6.0, "?x"}[c.Intn(3, "bval")],
		}
	case k <= 7: // arrays: one variable among structured and scalar members
		var a []interface{}
		n := 1 + c.Intn(3, "alen")
		for i := 0; i < n; i++ {
			switch c.Intn(4, "aelem") {
			case 0:
				a = append(a, c03Var(c))
			case 1:
				a = append(a, map[string]interface{}{"p": c03Var(c)})
			case 2:
				a = append(a, c03Sub(c))
			case 3:
				a = append(a, []interface{}{1.0, 2.0, "s"}[c.Intn(3, "ascalar")])
			}
		}
		return a
	case k == 9 && depth == 0 && c.Chance(1, 3, "wide"):
		// a pattern that matches a wide message in very many ways (every one of them counts)
		switch c.Intn(3, "widekind") {
		case 0:
			return map[string]interface{}{"a": []interface{}{"?x"}}
		case 1:
			return map[string]interface{}{"?k": "?v"}
		}
		return map[string]interface{}{"a": []interface{}{"?x"}, "b": []interface{}{"?y"}}
	case k == 9 && depth == 0 && c.Bool("arrayalt"):
		// an array whose first member has several alternatives, one of which binds the
		// variable to data that is an invalid pattern for the second member: whichever
		// alternative is tried first, the answer is that error
		return []interface{}{map[string]interface{}{"a": "?x"}, map[string]interface{}{"b": "?x"}}
	case k == 8 && c.Bool("choosethenindex"):
		// a variable bound in several ways by an array, then used as the property variable of
		// another part of the pattern: every alternative has to look up its own property
		v := []string{"?k", "?x"}[c.Intn(2, "ctivar")]
		var val interface{} = "?v"
		if c.Chance(1, 3, "ctisame") {
			val = v
		}
		return map[string]interface{}{"a": []interface{}{v}, "b": map[string]interface{}{v: val}}
	case k == 8:
		return c03Var(c)
	}
	return c03Sub(c)
}

// c03Wide recognises the "wide" pattern family.
func c03Wide(p map[string]interface{}) bool {
	if v, ok := p["?k"]; ok && len(p) == 1 {
		return v == "?v"
	}
	a, ok := p["a"].([]interface{})
	if !ok || len(a) != 1 || a[0] != "?x" {
		return false
	}
	if len(p) == 1 {
		return true
	}
	b, ok := p["b"].([]interface{})
	return ok && len(p) == 2 && len(b) == 1 && b[0] == "?y"
}

// c03ArrayAlt recognises the "array alternatives" family.
func c03ArrayAlt(p []interface{}) bool {
	if len(p) != 2 {
		return false
	}
	a, ok1 := p[0].(map[string]interface{})
	b, ok2 := p[1].(map[string]interface{})
	return ok1 && ok2 && len(a) == 1 && len(b) == 1 && a["a"] == "?x" && b["b"] == "?x"
}

// c03ChooseThenIndex recognises the pattern family above.
func c03ChooseThenIndex(p map[string]interface{}) bool {
	pa, ok := p["a"].([]interface{})
	if !ok || len(pa) != 1 || len(p) != 2 {
		return false
	}
	v, ok := pa[0].(string)
	if !ok || !strings.HasPrefix(v, "?") {
		return false
	}
	pb, ok := p["b"].(map[string]interface{})
	if !ok || len(pb) != 1 {
		return false
	}
	_, ok = pb[v]
	return ok
}

func c03PatVal(c *sim.Ctx, depth int) interface{} {
	if c.Bool("pvstruct") && depth < 2 {
		return c03Pattern(c, depth+1)
	}
	return c03Var(c)
}

// c03Message builds a message around the pattern's shape plus distractors.
func c03Message(c *sim.Ctx, pat interface{}, depth int) interface{} {
	switch p := pat.(type) {
	case map[string]interface{}:
		if depth == 0 && c03Wide(p) {
			n := 66 + c.Intn(6, "widen")
			if _, two := p["b"]; two {
				n = 9 + c.Intn(3, "widen2")
			}
			m := map[string]interface{}{}
			if _, kv := p["?k"]; kv {
				for i := 0; i < n; i++ {
					m[fmt.Sprintf("k%02d", i)] = float64(i)
				}
				return m
			}
			var xs, ys []interface{}
			for i := 0; i < n; i++ {
				xs = append(xs, float64(i))
				ys = append(ys, fmt.Sprintf("s%02d", i))
			}
			m["a"] = xs
			if _, two := p["b"]; two {
				m["b"] = ys
			}
			return m
		}
		if depth == 0 && c03ChooseThenIndex(p) {
			keys := [][]interface{}{{"x", "y"}, {"x", "y", "z"}, {"y"}}[c.Intn(3, "ctikeys")]
			b := map[string]interface{}{}
			for i, k := range keys {
				b[k.(string)] = []interface{}{1.0, 2.0, "x", "q"}[(i+c.Intn(4, "ctival"))%4]
			}
			return map[string]interface{}{"a": append([]interface{}{}, keys...), "b": b}
		}
		m := map[string]interface{}{}
		for k, v := range sortedItems(p) {
			_ = k
			key := v.k
			if strings.HasPrefix(key, "?") {
				key = []string{"a", "b", "k1"}[c.Intn(3, "mkeyv")]
			}
			if c.Chance(1, 8, "dropkey") {
				continue
			}
			m[key] = c03Message(c, v.v, depth+1)
		}
		for i := c.Intn(3, "extra"); i > 0; i-- {
			m[[]string{"a", "b", "c", "d", "k1", "k2"}[c.Intn(6, "xkey")]] = c03Sub(c)
		}
		return m
	case []interface{}:
		if depth == 0 && c03ArrayAlt(p) {
			bad := map[string]interface{}{"?k": 1.0, "z": 2.0}
			members := []interface{}{
				map[string]interface{}{"a": bad},
				map[string]interface{}{"a": map[string]interface{}{"p": 1.0}},
				map[string]interface{}{"b": map[string]interface{}{"p": 1.0}},
				map[string]interface{}{"a": map[string]interface{}{"q": 2.0}, "b": map[string]interface{}{"q": 2.0, "r": 3.0}},
			}
			n := 3 + c.Intn(2, "altmembers")
			if c.Bool("altgood") {
				members = members[1:] // no failing alternative at all
			}
			if n > len(members) {
				n = len(members)
			}
			return append([]interface{}{}, members[:n]...)
		}
		var a []interface{}
		for _, e := range p {
			a = append(a, c03Message(c, e, depth+1))
		}
		for i := c.Intn(3, "aextra"); i > 0; i-- {
			a = append(a, c03Sub(c))
		}
		return a
	case string:
		if strings.HasPrefix(p, "?") {
			return c03Sub(c)
		}
		if c.Chance(1, 6, "mismatch") {
			return "other"
		}
		return p
	default:
		if c.Chance(1, 6, "mismatch") {
			return c03Sub(c)
		}
		return ref.CopyVal(pat)
	}
}

type kv struct {
	k string
	v interface{}
}

func sortedItems(m map[string]interface{}) []kv {
	ks := make([]string, 0, len(m))
	for k := range m {
		ks = append(ks, k)
	}
	sort.Strings(ks)
	out := make([]kv, 0, len(ks))
	for _, k := range ks {
		out = append(out, kv{k, m[k]})
	}
	return out
}

func c03Bindings(c *sim.Ctx) match.Bindings {
	bs := match.Bindings{}
	if c.Chance(1, 3, "bound-n") {
		bs["?<n"] = []interface{}{1.0, 2.0, 10.0}[c.Intn(3, "nbound")]
	}
	if c.Chance(1, 4, "bound-x") {
		bs["?x"] = c03Sub(c)
	}
	if c.Chance(1, 6, "bound-y") {
		bs["?y"] = c03Sub(c)
	}
	if c.Chance(1, 5, "bound-other") {
		bs["keep"] = map[string]interface{}{"deep": []interface{}{1.0}}
	}
	return bs
}

func canonResults(bss []match.Bindings, err error) string {
	if err != nil {
		return "error"
	}
	if len(bss) == 0 {
		return "nomatch"
	}
	items := make([]string, 0, len(bss))
	for _, bs := range bss {
		items = append(items, ref.Canon(map[string]interface{}(bs)))
	}
	sort.Strings(items)
	return "match:" + strings.Join(items, "|")
}

func outcomeClass(s string) string {
	if i := strings.Index(s, ":"); i > 0 {
		return s[:i]
	}
	return s
}

// identity records the canonical form of every nested container together with
// its address, so that in-place edits that keep the JSON equal would show, too.
func identity(x interface{}, acc *[]string) {
	switch v := x.(type) {
	case map[string]interface{}:
		*acc = append(*acc, fmt.Sprintf("%x:%s", mapPtr(v), ref.Canon(v)))
		for _, it := range sortedItems(v) {
			identity(it.v, acc)
		}
	case match.Bindings:
		identity(map[string]interface{}(v), acc)
	case []interface{}:
		*acc = append(*acc, fmt.Sprintf("[%d]:%s", len(v), ref.Canon(v)))
		for _, e := range v {
			identity(e, acc)
		}
	}
}

func snapshotArgs(pat, msg interface{}, bs match.Bindings) string {
	var acc []string
	identity(pat, &acc)
	acc = append(acc, "#")
	identity(msg, &acc)
	acc = append(acc, "#")
	identity(bs, &acc)
	return strings.Join(acc, ";") + "|" + typedCanon(pat) + "|" + typedCanon(msg) + "|" + typedCanon(bs)
}

func runC03Order(c *sim.Ctx, t *testing.T) {
	sim.Install(c)
	defer sim.Uninstall()
	pat := c03Pattern(c, 0)
	msg := c03Message(c, pat, 0)
	bs := c03Bindings(c)
	desc := fmt.Sprintf("pattern %s message %s bindings %s", ref.Canon(pat), ref.Canon(msg), ref.Canon(map[string]interface{}(bs)))
	before := snapshotArgs(pat, msg, bs)

	eval := func() (string, []match.Bindings, bool) {
		var bss []match.Bindings
		var err error
		if c.Guard("Match "+desc, func() { bss, err = match.Match(pat, msg, bs) }) {
			return "", nil, false
		}
		return canonResults(bss, err), bss, true
	}

	// (1) enumerate the iteration orders: depth-first over the sequences of
	// order draws, replaying a prefix and extending with zeros.
	const maxPaths = 96
	var prefix, bounds []int
	first := ""
	firstOrder := ""
	paths := 0
	exhaustive := false
	for {
		pos := 0
		var taken []int
		bounds = bounds[:0]
		c.DrawFn = func(n int, label string) int {
			v := 0
			if pos < len(prefix) {
				v = prefix[pos]
				if v >= n {
					v = n - 1
				}
			}
			pos++
			taken = append(taken, v)
			bounds = append(bounds, n)
			return v
		}
		res, _, ok := eval()
		c.DrawFn = nil
		if !ok {
			return
		}
		paths++
		if after := snapshotArgs(pat, msg, bs); after != before {
			c.Violate("mutated:arguments", "Match modified its arguments: %s\nbefore %s\nafter  %s", desc, before, after)
			return
		}
		if first == "" {
			first, firstOrder = res, fmt.Sprint(taken)
		} else if res != first {
			a, b := outcomeClass(first), outcomeClass(res)
			if a > b {
				a, b = b, a
			}
			pair := a + "-vs-" + b
			if a == b {
				pair = "different-bindings"
			}
			c.Violate("order:"+pair, "the outcome of Match depends on map iteration order: %s\n  with order draws %s: %s\n  with order draws %v: %s", desc, firstOrder, first, taken, res)
			return
		}
		// next path (odometer over the draws actually made)
		prefix = append(prefix[:0], taken...)
		i := len(prefix) - 1
		for i >= 0 && prefix[i]+1 >= bounds[i] {
			i--
		}
		if i < 0 {
			exhaustive = true
			break
		}
		prefix[i]++
		prefix = prefix[:i+1]
		if paths >= maxPaths {
			break
		}
	}
	c.Add("orders_enumerated", paths)
	if exhaustive {
		c.Count("triples_with_all_orders_enumerated")
	} else {
		// (2) beyond the cap: tape-sampled orders
		nSamples := 12
		if pm, ok := pat.(map[string]interface{}); ok && c03Wide(pm) {
			nSamples = 3 // every evaluation of a wide match draws thousands of order choices
		}
		for i := 0; i < nSamples; i++ {
			res, _, ok := eval()
			if !ok {
				return
			}
			c.Count("orders_sampled")
			if res != first {
				a, b := outcomeClass(first), outcomeClass(res)
				if a > b {
					a, b = b, a
				}
				pair := a + "-vs-" + b
				if a == b {
					pair = "different-bindings"
				}
				c.Violate("order:"+pair, "the outcome of Match depends on map iteration order: %s\n  one order: %s\n  another:  %s", desc, first, res)
				return
			}
		}
	}
	c.Count("outcome_" + outcomeClass(first))

	// (3) results are independent maps
	_, bss, ok := eval()
	if !ok {
		return
	}
	if len(bss) > 0 {
		canon := make([]string, len(bss))
		for i, r := range bss {
			canon[i] = ref.Canon(map[string]interface{}(r))
		}
		for i, r := range bss {
			if mapPtr(r) == mapPtr(bs) && mapPtr(bs) != 0 {
				c.Violate("alias:result=bindings", "result %d is the caller's bindings map: %s", i, desc)
				return
			}
			r["zz-added"] = 1.0
			for k := range r {
				if k != "zz-added" {
					r[k] = "overwritten"
					break
				}
			}
			for k := range r {
				if k != "zz-added" {
					delete(r, k)
					break
				}
			}
			if after := snapshotArgs(pat, msg, bs); after != before {
				c.Violate("alias:result-to-arguments", "changing result %d changed the arguments of Match: %s\nbefore %s\nafter  %s", i, desc, before, after)
				return
			}
			for j, o := range bss {
				if j > i && ref.Canon(map[string]interface{}(o)) != canon[j] {
					c.Violate("alias:result-to-result", "changing result %d changed result %d: %s", i, j, desc)
					return
				}
			}
		}
		c.Add("results_mutated", len(bss))
	}
	c.MixHash(first)
	c.Path = ref.Canon(pat) + "|" + ref.Canon(msg) + "|" + ref.Canon(map[string]interface{}(bs))
	c.Trivial = paths < 2
	c.Sample = map[string]interface{}{"pattern": pat, "message": msg, "bindings": bs, "orders": paths, "all_orders": exhaustive, "outcome": first}
}

func runC03Concurrent(c *sim.Ctx, t *testing.T) {
	pat := c03Pattern(c, 0)
	msg := c03Message(c, pat, 0)
	bs := c03Bindings(c)
	desc := fmt.Sprintf("pattern %s message %s bindings %s", ref.Canon(pat), ref.Canon(msg), ref.Canon(map[string]interface{}(bs)))
	// (map iteration inside the matcher is permuted here, too: the outcome may not depend on it;
	// except for the wide family, whose matches would use up the tape)
	if pm, ok := pat.(map[string]interface{}); ok && c03Wide(pm) {
		c.PermuteOff = true
	}
	// The reference call is made afterwards, on copies taken now: the concurrent calls are
	// the first ever to see these pattern, message and bindings objects (anything the
	// matcher might remember per object is cold when they start).
	patCopy, msgCopy := typedCopy(pat), typedCopy(msg)
	bsCopy := match.Bindings{}
	for k, v := range bs {
		bsCopy[k] = typedCopy(v)
	}
	before := snapshotArgs(pat, msg, bs)
	ntasks := 2 + c.Intn(5, "ntasks")
	reps := 1 + c.Intn(3, "reps")
	results := make([][]string, ntasks)
	sim.Bubble(c, t, func(s *sim.Sched) {
		s.MaxSteps = 2000
		for i := 0; i < ntasks; i++ {
			i := i
			s.Go(fmt.Sprintf("m%d", i), func(tk *sim.Task) {
				for r := 0; r < reps; r++ {
					sim.Yield("h#call")
					bss, err := match.Match(pat, msg, bs)
					results[i] = append(results[i], canonResults(bss, err))
					for _, b := range bss { // callers own their results
						b["mine"] = float64(i)
					}
				}
			})
		}
		s.Run()
		s.Drain(200)
	})
	sim.Install(c)
	solo, serr := match.Match(patCopy, msgCopy, bsCopy)
	sim.Uninstall()
	want := canonResults(solo, serr)
	for i, rs := range results {
		for _, r := range rs {
			if r != want {
				c.Violate("concurrent:result", "task %d got %s, alone the result is %s: %s", i, r, want, desc)
				return
			}
		}
	}
	if after := snapshotArgs(pat, msg, bs); after != before {
		c.Violate("mutated:arguments", "concurrent Match calls modified their shared arguments: %s", desc)
		return
	}
	c.Add("concurrent_calls", ntasks*reps)
	c.Add("steps_with_choice", c.Sched.Switches)
	c.MixHash(want)
	c.Path = ref.Canon(pat) + "|" + ref.Canon(msg) + fmt.Sprintf("|%016x", c.Sched.Hash)
	c.Trivial = c.Sched.Switches == 0
	c.Sample = map[string]interface{}{"pattern": pat, "message": msg, "bindings": bs, "tasks": ntasks, "outcome": want}
}

// typedCopy deep-copies a value built from maps and slices, keeping the Go type
// of every scalar (int, int64, float64, ...) as it is.
func typedCopy(x interface{}) interface{} {
	switch v := x.(type) {
	case map[string]interface{}:
		m := make(map[string]interface{}, len(v))
		for k, e := range v {
			m[k] = typedCopy(e)
		}
		return m
	case match.Bindings:
		m := make(match.Bindings, len(v))
		for k, e := range v {
			m[k] = typedCopy(e)
		}
		return m
	case []interface{}:
		a := make([]interface{}, len(v))
		for i, e := range v {
			a[i] = typedCopy(e)
		}
		return a
	}
	return x
}
