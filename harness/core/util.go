//go:build verif_sim

package ecmascript_test

import (
	"encoding/json"
	"sort"
)

func jsonUnmarshal(s string, v interface{}) error { return json.Unmarshal([]byte(s), v) }

func sortStrings(s []string) { sort.Strings(s) }
