//go:build verif_sim

package ecmascript_test

// C11: action timeouts.  Script progress is simulated time: scripts call
// _.props.tick(), which sleeps a simulated duration and yields.  Deadlines from
// already expired to hundreds of simulated ms; cancellation issued at tick N;
// 1-8 concurrent executions; through Interpreter.Exec, Spec.Step and Spec.Walk
// with each error-routing mode.  Oracle: every execution of a non-terminating
// script ends with the timeout error (routed as an action error), no tick runs
// once the execution's watcher has delivered the interrupt, and when the
// bubble's root returns no goroutine of an execution is left behind.

import (
	"context"
	"fmt"
	"strings"
	"testing"
	"time"

	"github.com/Comcast/sheens/core"
	"github.com/Comcast/sheens/interpreters/ecmascript"
	"github.com/Comcast/sheens/match"

	"verif/sim"
)

func init() { registry["C11"] = runC11 }

var c11Scripts = []struct {
	name, js string
	endless  bool
}{
	{"loop", `for (;;) { _.props.tick(); }`, true},
	{"while-counter", `var i = 0; while (true) { i++; if (i % 3 == 0) { _.props.tick(); } }`, true},
	{"recursion", `function f(n) { _.props.tick(); return f(n + 1) + 1; } return {"n": f(0)};`, true},
	{"churn", `var a = []; for (;;) { a.push({"x": a.length}); if (a.length > 40) { a = []; } _.props.tick(); }`, true},
	{"props", `var o = {}; for (var i = 0; ; i++) { o["k" + (i % 7)] = i; delete o["k" + ((i + 3) % 7)]; _.props.tick(); }`, true},
	{"finite", `for (var i = 0; i < 5; i++) { _.props.tick(); } return {"done": true};`, false},
	{"emit-then-loop", `_.out({"early": 1}); for (;;) { _.props.tick(); }`, true},
	// the loop runs when the interpreter reads the returned object, after the program has returned
	// the loop runs when somebody asks the thrown value for its text
	{"throw-looping-tostring", `_.props.tick(); throw {toString: function() { for (;;) { _.props.tick(); } }};`, true},
	{"getter-loop", `_.props.tick(); return {get a() { for (;;) { _.props.tick(); } }};`, true},
	// both: reading the returned object throws a value whose text never comes
	{"getter-throws-looping-tostring", `_.props.tick(); return {get a() { throw {toString: function() { for (;;) { _.props.tick(); } }}; }};`, true},
	// executions that end by an ordinary failure must not leave anything behind either
	{"throws", `_.props.tick(); throw new Error("boom");`, false},
	{"reference-error", `_.props.tick(); return {"x": undefinedVariable + 1};`, false},
	{"bad-emit", `_.props.tick(); _.out(0/0); return {};`, false},
	{"bad-return", `_.props.tick(); return 42;`, false},
}

type c11Exec struct {
	script      int
	via         string // exec | step | walk
	mode        int    // error routing for step/walk: 0 none, 1 branches, 2 node
	deadline    time.Duration
	cancelAt    int // >0: cancel() is called inside the N-th tick
	tickD       time.Duration
	farDeadline bool // cancel plans: the context also has a deadline, an hour away
	longLived   bool // run under the long-lived parent context (terminating scripts only)
	guardLoop   bool // step/walk only: the action fails at once and the guard of its error branch never ends
	unhandled   bool // mode 1 only: the node's only branch handles another error ({"actionError":"disk full"}), so the timeout follows no branch
	guardKind   int  // 1: the action fails and the guard of its error branch loops; 2: the action completes and the guard of its branch loops; 3: no action, a pattern with two candidates, the guard loops for one of them
}

func runC11(c *sim.Ctx, t *testing.T) {
	n := 1 + c.Intn(8, "nexec")
	if c.Chance(2, 3, "few") {
		n = 1 + c.Intn(2, "nexec2")
	} else if c.Chance(1, 8, "many") {
		// a burst: more executions in flight than any plausible bound on concurrent
		// runtimes - none of them may wait for another beyond its own deadline
		n = 34 + c.Intn(8, "nexec3")
	}
	deadlines := []time.Duration{-time.Millisecond, time.Millisecond, 10 * time.Millisecond, 50 * time.Millisecond, 300 * time.Millisecond}
	ticks := []time.Duration{time.Millisecond, 3 * time.Millisecond, 7 * time.Millisecond}
	plans := make([]c11Exec, n)
	for i := range plans {
		p := c11Exec{script: c.Intn(len(c11Scripts), "script"), via: []string{"exec", "step", "walk"}[c.Intn(3, "via")], mode: c.Intn(3, "mode"),
			deadline: deadlines[c.Intn(len(deadlines), "deadline")], tickD: ticks[c.Intn(len(ticks), "tickd")]}
		if c.Chance(1, 3, "cancel") {
			p.cancelAt = 1 + c.Intn(12, "cancelat")
			p.deadline = time.Hour
			p.farDeadline = c.Bool("fardeadline")
		}
		if !c11Scripts[p.script].endless && p.cancelAt == 0 && c.Bool("longlived") {
			p.longLived = true
		}
		if p.via != "exec" && p.mode == 1 && c11Scripts[p.script].endless && c.Chance(1, 3, "unhandled") {
			p.unhandled = true
		}
		if p.via != "exec" && !p.longLived && !p.unhandled && c.Chance(1, 5, "guardloop") {
			p.guardLoop = true
			p.guardKind = 1 + c.Intn(3, "guardkind")
			if p.guardKind == 1 {
				p.mode = 1
			}
		}
		plans[i] = p
	}
	interp := ecmascript.NewInterpreter()
	type outcome struct {
		returned    bool
		err         string
		node        string
		bsErr       string
		bsActionErr string
		emitted     int
		ended       time.Duration
	}
	outs := make([]outcome, n)
	var lg *sim.Log
	var outlived []string
	interruptAt := map[string]int{} // exec task -> log length when its watcher was released after ictx.Done()
	leak := sim.Bubble(c, t, func(s *sim.Sched) {
		s.MaxSteps = 6000
		if n > 30 {
			s.MaxSteps = 40000
		}
		s.Horizon = 5 * time.Second
		lg = sim.NewLog()
		s.OnRelease = func(task, site string) {
			if strings.Contains(site, "Interpreter.Exec#chan") && strings.HasSuffix(site, "'") {
				if i := strings.LastIndex(task, "."); i > 0 {
					if _, seen := interruptAt[task[:i]]; !seen {
						interruptAt[task[:i]] = lg.Len()
					}
					// (per watcher, too: a step with a guard runs two executions)
					if _, seen := interruptAt[task]; !seen {
						interruptAt[task] = lg.Len()
					}
				}
			}
		}
		root, cancelAll := context.WithCancel(context.Background())
		for i := range plans {
			i, p := i, plans[i]
			s.Go(fmt.Sprintf("x%d", i), func(tk *sim.Task) {
				var ctx context.Context
				var cancel context.CancelFunc
				if p.longLived {
					// a host's long-lived service context: nobody cancels it after the call
					ctx, cancel = root, func() {}
				} else if p.cancelAt > 0 && p.farDeadline {
					// cancelled long before its (still comfortably distant) deadline
					ctx, cancel = context.WithTimeout(root, time.Hour)
				} else if p.cancelAt > 0 {
					// cancelled from outside, no deadline anywhere (e.g. a shutdown)
					ctx, cancel = context.WithCancel(root)
				} else if p.deadline < 0 {
					ctx, cancel = context.WithDeadline(root, time.Now().Add(p.deadline))
				} else {
					ctx, cancel = context.WithTimeout(root, p.deadline)
				}
				defer cancel()
				nticks := 0
				props := core.StepProps{"tick": func() {
					nticks++
					lg.Add(sim.Ev{Kind: "tick", Id: tk.Name, N: int64(nticks)})
					if p.cancelAt > 0 && nticks == p.cancelAt {
						lg.Add(sim.Ev{Kind: "cancel", Id: tk.Name})
						cancel()
					}
					sim.Sleep(p.tickD)
				}}
				src := c11Scripts[p.script].js
				o := &outs[i]
				switch p.via {
				case "exec":
					exe, err := interp.Exec(ctx, match.Bindings{}, props, src, nil)
					if err != nil {
						o.err = err.Error()
					} else if exe != nil {
						o.emitted = len(exe.Emitted)
					}
				default:
					spec := &core.Spec{Name: "t", Nodes: map[string]*core.Node{
						"a":    {ActionSource: &core.ActionSource{Interpreter: "ecmascript", Source: src}, Branches: &core.Branches{Type: "bindings", Branches: []*core.Branch{{Target: "b"}}}},
						"b":    {Branches: &core.Branches{Type: "message"}},
						"aerr": {Branches: &core.Branches{Type: "message"}},
					}}
					switch p.mode {
					case 1:
						spec.ActionErrorBranches = true
						if p.unhandled {
							spec.Nodes["a"].Branches.Branches = []*core.Branch{{Pattern: map[string]interface{}{"actionError": "disk full"}, Target: "b"}}
						}
					case 2:
						spec.ActionErrorNode = "aerr"
					}
					loop := &core.ActionSource{Interpreter: "ecmascript", Source: `for (;;) { _.props.tick(); }`}
					switch p.guardKind {
					case 1:
						spec.Nodes["a"].ActionSource.Source = `_.props.tick(); throw new Error("boom");`
						spec.Nodes["a"].Branches.Branches = []*core.Branch{
							{Pattern: map[string]interface{}{"actionError": "?e"}, GuardSource: loop, Target: "b"},
							{Target: "b"}}
					case 2:
						spec.Nodes["a"].ActionSource.Source = `_.props.tick(); return {"did": 1};`
						spec.Nodes["a"].Branches.Branches = []*core.Branch{{Pattern: map[string]interface{}{"did": 1.0}, GuardSource: loop, Target: "b"}, {Target: "b"}}
					case 3:
						spec.Nodes["a"].ActionSource = nil
						spec.Nodes["a"].Branches.Branches = []*core.Branch{{Pattern: map[string]interface{}{"likes": []interface{}{"?x"}},
							GuardSource: &core.ActionSource{Interpreter: "ecmascript", Source: `if (_.bindings["?x"] === "a") { for (;;) { _.props.tick(); } } return _.bindings;`}, Target: "b"}}
					}
					// a host compiles its specs once, long before (and under another context than) any step
					if err := spec.Compile(context.Background(), core.InterpretersMap{"ecmascript": interp}, true); err != nil {
						o.err = "compile: " + err.Error()
						break
					}
					st := &core.State{NodeName: "a", Bs: match.Bindings{}}
					if p.guardKind == 3 {
						st.Bs["likes"] = []interface{}{"a", "b"}
					}
					var to *core.State
					if p.via == "step" {
						stride, err := spec.Step(ctx, st, nil, nil, props)
						if err != nil {
							o.err = err.Error()
						}
						if stride != nil {
							to = stride.To
							o.emitted = len(stride.Emitted)
						}
					} else {
						w, err := spec.Walk(ctx, st, nil, &core.Control{Limit: 3}, props)
						if err != nil {
							o.err = "walk: " + err.Error()
						}
						if w != nil {
							to = w.To()
							o.emitted = len(allEmitted(w))
						}
					}
					if to != nil {
						o.node = to.NodeName
						if e, ok := to.Bs["error"].(string); ok {
							o.bsErr = e
						} else if e, ok := to.Bs["actionError"].(string); ok {
							o.bsErr = e
						}
						o.bsActionErr, _ = to.Bs["actionError"].(string)
					}
				}
				o.returned = true
				o.ended = s.Now()
				lg.Add(sim.Ev{Kind: "returned", Id: tk.Name})
			})
		}
		s.Run()
		// every call has returned (or the run is over) while the long-lived parent
		// context is still alive: whatever an execution started must be gone by now
		for _, g := range s.LiveSpawned() {
			if strings.Contains(g, "Interpreter.Exec") {
				outlived = append(outlived, g)
			}
		}
		cancelAll()
		s.Drain(500)
	})
	c.SimTime = c.Sched.SimTime
	evs := lg.Events()
	allReturned := true
	for _, o := range outs {
		if !o.returned {
			allReturned = false
		}
	}
	if allReturned && len(outlived) > 0 {
		c.Violate("timeout:leak:outlives-call", "%d goroutine(s) started by Interpreter.Exec were still alive after every execution had returned (parent context not cancelled): %v", len(outlived), outlived)
	}
	shape := ""
	for i, p := range plans {
		o := outs[i]
		name := fmt.Sprintf("x%d", i)
		sc := c11Scripts[p.script]
		desc := fmt.Sprintf("execution %d: script %q via %s (error mode %d), deadline %v, cancel at tick %d, tick %v", i, sc.name, p.via, p.mode, p.deadline, p.cancelAt, p.tickD)
		shape += fmt.Sprintf("%s/%s/%d/%v/%d/%v/%v;", sc.name, p.via, p.mode, p.deadline, p.cancelAt, p.longLived, p.guardKind)
		c.Count("executions")
		if !o.returned {
			c.Violate("timeout:still-running", "%s: did not return within %v of simulated time / %d scheduler steps", desc, c.Sched.SimTime, c.Sched.Steps)
			continue
		}
		nt, after := 0, 0
		cut, haveCut := interruptAt[name]
		if p.guardLoop && p.guardKind != 3 {
			// the action's watcher is released when the action has ended; the guard's is the second
			cut, haveCut = interruptAt[name+".2"]
		} else if p.guardKind == 3 {
			// the looping guard may be the first or the second execution of the step
			haveCut = false
		}
		for _, e := range evs {
			if e.Kind == "tick" && e.Id == name {
				nt++
				if haveCut && e.Seq > cut {
					after++
				}
			}
		}
		c.Add("ticks", nt)
		if haveCut {
			c.Count("interrupts_delivered")
			if after > 1 {
				c.Violate("timeout:ticks-after-interrupt", "%s: %d ticks ran after the interrupt had been delivered", desc, after)
			}
		}
		if p.guardLoop {
			// the guard is what has to be stopped: returning at all (above), promptly (ticks after
			// the interrupt) and leaving nothing behind (below) is the claim - and, where the
			// guard certainly ran into the end of its context, that the step reports the timeout
			c.Count("looping_guards")
			// (kind 2: the action ticks once; a second tick can only be the guard's)
			ranOut := (p.guardKind == 2 && nt >= 2) || (p.guardKind == 3 && nt > 0)
			if ranOut && !c.Sched.Exhausted {
				switch p.via {
				case "step":
					if o.err != ecmascript.InterruptedMessage {
						c.Violate("timeout:guard:unreported:step", "%s (guard kind %d): the guard ran out of time but Step returned error %q and node %q", desc, p.guardKind, o.err, o.node)
					}
				case "walk":
					if o.node != "error" || o.bsErr != ecmascript.InterruptedMessage {
						c.Violate("timeout:guard:unreported:walk", "%s (guard kind %d): the guard ran out of time but the walk ended at node %q with error %q (err %q)", desc, p.guardKind, o.node, o.bsErr, o.err)
					}
				}
			}
			continue
		}
		// prompt: an endless script under a deadline is back within a tick of it (simulated
		// time only moves in ticks), however many other executions are under way
		if sc.endless && !p.guardLoop && p.cancelAt == 0 && !c.Sched.Exhausted {
			limit := p.deadline
			if limit < 0 {
				limit = 0
			}
			if o.ended > limit+2*p.tickD {
				c.Violate("timeout:late", "%s: returned at %v, its deadline was %v (%d executions in this run)", desc, o.ended, p.deadline, n)
			}
			c.Count("deadlines_checked_for_promptness")
		}
		if !sc.endless {
			// a terminating script may finish before anybody stops it; one that needs 5 ticks of
			// at most 7 ms and has 300 ms (or no limit at all) must finish, whatever runs beside it
			if sc.name == "finite" && p.cancelAt == 0 && (p.longLived || p.deadline >= 300*time.Millisecond) && !c.Sched.Exhausted {
				if o.err != "" || o.bsErr != "" || (p.via != "exec" && o.node != "b") {
					c.Violate("timeout:spurious", "%s: a script that needs 5 ticks ended with err=%q node=%q error=%q", desc, o.err, o.node, o.bsErr)
				}
				c.Count("scripts_that_must_finish")
			}
			continue
		}
		c.Count("endless_scripts")
		timeoutText := ecmascript.InterruptedMessage
		switch p.via {
		case "exec":
			if o.err != timeoutText {
				c.Violate("timeout:wrong-error:exec", "%s: Exec returned error %q, expected %q", desc, o.err, timeoutText)
			}
		case "step":
			switch p.mode {
			case 0:
				if o.err != timeoutText {
					c.Violate("timeout:misrouted:step", "%s: Step returned error %q and state %q, expected the timeout error", desc, o.err, o.node)
				}
			case 1:
				if p.unhandled {
					// no branch handles it: the error node, and the timeout still named in the bindings
					if o.err != "" || o.node != "error" || o.bsActionErr != timeoutText {
						c.Violate("timeout:misrouted:step-unhandled", "%s: no branch handles a timeout: expected the error node with actionError bound to the timeout error; got err=%q node=%q actionError=%q", desc, o.err, o.node, o.bsActionErr)
					}
				} else if o.err != "" || o.node != "b" || o.bsErr != timeoutText {
					c.Violate("timeout:misrouted:step-branches", "%s: expected to follow the branches with the timeout error bound; got err=%q node=%q error=%q", desc, o.err, o.node, o.bsErr)
				}
			case 2:
				if o.err != "" || o.node != "aerr" || o.bsErr != timeoutText {
					c.Violate("timeout:misrouted:step-node", "%s: expected the action-error node with the timeout error bound; got err=%q node=%q error=%q", desc, o.err, o.node, o.bsErr)
				}
			}
		case "walk":
			want := map[int]string{0: "error", 1: "b", 2: "aerr"}[p.mode]
			if p.unhandled {
				if o.err != "" || o.node != "error" || o.bsActionErr != timeoutText {
					c.Violate("timeout:misrouted:walk-unhandled", "%s: no branch handles a timeout: expected the error node with actionError bound to the timeout error; got err=%q node=%q actionError=%q", desc, o.err, o.node, o.bsActionErr)
				}
			} else if o.err != "" || o.node != want || o.bsErr != timeoutText {
				c.Violate("timeout:misrouted:walk", "%s: expected node %q with the timeout error bound; got err=%q node=%q error=%q", desc, want, o.err, o.node, o.bsErr)
			}
		}
		if o.emitted != 0 {
			c.Violate("timeout:emitted", "%s: an interrupted action reported %d emitted messages", desc, o.emitted)
		}
	}
	if leak != "" {
		c.Violate("timeout:leak", "goroutines of an execution were left blocked after every call had returned and the contexts were cancelled: %s", firstLine(leak))
	}
	if len(c.Sched.Deadlock) > 0 {
		c.Violate("timeout:deadlock", "tasks blocked forever: %v", c.Sched.Deadlock)
	}
	c.Add("steps_with_choice", c.Sched.Switches)
	c.MixHash(shape)
	for _, e := range evs {
		c.MixHash(fmt.Sprintf("%d %s %s %d %v", e.Seq, e.Kind, e.Id, e.N, e.At))
	}
	c.Path = shape + fmt.Sprintf("%016x", c.Sched.Hash)
	c.Sample = map[string]interface{}{"executions": shape}
}

func firstLine(s string) string {
	if i := strings.Index(s, "\n"); i > 0 {
		return s[:i]
	}
	return s
}
