//go:build verif_sim

package ecmascript_test

// C05/unencodable: the messages of a history need not be JSON.  A host may hand Walk
// anything a pattern can be matched against - maps that also carry a NaN, an infinity, a
// function, a channel (what arrives from a Go producer rather than from a JSON decoder).
// The walk's accounting may not depend on being able to encode a message: consumed in
// order, each at most once; a truthful remainder; the step bound; and the machine ends where a small automaton says it ends.
//
// The programs are plain automata (message nodes with constant patterns, pass-through
// bindings nodes, no actions), so that nothing but the accounting is under test and the
// expected end node is computed here.

import (
	"context"
	"fmt"
	"math"
	"testing"

	"github.com/Comcast/sheens/core"

	"verif/sim"
)

func init() { registry["C05/unencodable"] = runC05Unencodable }

type c05uNode struct {
	message bool
	keys    []string // per branch: the value of "k" asked for, "" = no pattern (message nodes: any message)
	targets []string
}

func runC05Unencodable(c *sim.Ctx, t *testing.T) {
	sim.Install(c)
	defer sim.Uninstall()
	letters := []string{"a", "b", "c"}
	nn := 2 + c.Intn(3, "nnodes")
	names := make([]string, nn)
	for i := range names {
		names[i] = fmt.Sprintf("n%d", i)
	}
	model := map[string]*c05uNode{}
	spec := &core.Spec{Name: "automaton", Nodes: map[string]*core.Node{}}
	desc := ""
	for i, name := range names {
		n := &c05uNode{message: true}
		// a pass-through node now and then (never the first, and it leads to a message node
		// with a smaller index, so that no walk runs in circles without consuming)
		if i > 0 && c.Chance(1, 4, "pass") {
			n.message = false
			j := c.Intn(i, "passtarget")
			for !model[names[j]].message {
				j--
			}
			n.keys, n.targets = []string{""}, []string{names[j]}
		} else {
			nb := 1 + c.Intn(3, "nbranches")
			for b := 0; b < nb; b++ {
				k := letters[c.Intn(len(letters), "key")]
				if b == nb-1 && c.Chance(1, 4, "catchall") {
					k = ""
				}
				n.keys = append(n.keys, k)
				n.targets = append(n.targets, names[c.Intn(nn, "target")])
			}
		}
		model[name] = n
		cn := &core.Node{Branches: &core.Branches{Type: "bindings"}}
		if n.message {
			cn.Branches.Type = "message"
		}
		for b := range n.keys {
			br := &core.Branch{Target: n.targets[b]}
			if n.keys[b] != "" {
				br.Pattern = map[string]interface{}{"k": n.keys[b]}
			}
			cn.Branches.Branches = append(cn.Branches.Branches, br)
		}
		spec.Nodes[name] = cn
		desc += fmt.Sprintf(" %s(message=%v %v->%v)", name, n.message, n.keys, n.targets)
	}
	if err := spec.Compile(context.Background(), interpreters, true); err != nil {
		c.Infra = "automaton does not compile: " + err.Error()
		return
	}
	// the history
	nmsgs := 1 + c.Intn(8, "nmsgs")
	hist := make([]interface{}, nmsgs)
	hdesc := ""
	for i := range hist {
		m := map[string]interface{}{"k": letters[c.Intn(len(letters), "k")], "seq": i}
		kind := []string{"json", "nan", "inf", "func", "chan", "deep-nan", "json"}[c.Intn(7, "junk")]
		switch kind {
		case "nan":
			m["junk"] = math.NaN()
		case "inf":
			m["junk"] = math.Inf(1)
		case "func":
			m["junk"] = func() {}
		case "chan":
			m["junk"] = make(chan int)
		case "deep-nan":
			m["junk"] = map[string]interface{}{"deep": []interface{}{1.0, math.NaN()}}
		}
		if kind != "json" {
			c.Count("messages_json_cannot_carry")
		}
		hist[i] = m
		hdesc += fmt.Sprintf(" %d:%s/%s", i, m["k"], kind)
	}
	seqOf := func(x interface{}) int {
		if m, ok := x.(map[string]interface{}); ok {
			// (a stride may report a copy of the message: a number is a number)
			switch s := m["seq"].(type) {
			case int:
				return s
			case float64:
				return int(s)
			}
		}
		return -1
	}
	fail := func(rule, format string, args ...interface{}) {
		c.Violate("walk:unencodable:"+rule, format+"\n automaton:%s\n history (seq:k/extra member):%s", append(args, desc, hdesc)...)
	}
	// the automaton's own run
	expectNode := func(node string, msgs []interface{}) string {
		settle := func() {
			for !model[node].message {
				node = model[node].targets[0]
			}
		}
		settle()
		for _, x := range msgs {
			k := x.(map[string]interface{})["k"].(string)
			n := model[node]
			for b := range n.keys {
				if n.keys[b] == "" || n.keys[b] == k {
					node = n.targets[b]
					break
				}
			}
			settle()
		}
		return node
	}
	ctx := context.Background()
	start := names[c.Intn(nn, "start")]
	st := &core.State{NodeName: start, Bs: map[string]interface{}{}}
	rest := append([]interface{}{}, hist...)
	nextSeq := 0
	limits := []int{0, 1, 2, 3, 5, 10, 40}
	shape := ""
	calls := 0
	for len(rest) > 0 && calls < 24 {
		calls++
		take := 1 + c.Intn(len(rest), "batch")
		batch := append([]interface{}{}, rest[:take]...)
		ctl := &core.Control{Limit: limits[c.Intn(len(limits), "limit")]}
		var w *core.Walked
		var werr error
		if c.Guard("Walk", func() { w, werr = spec.Walk(ctx, st, batch, ctl, nil) }) {
			return
		}
		if werr != nil || w == nil {
			fail("error", "Walk returned error %v", werr)
			return
		}
		c.Count("walks")
		shape += fmt.Sprintf("%d/%d/%s;", take, ctl.Limit, w.StoppedBecause)
		if len(w.Strides) > ctl.Limit {
			fail("limit", "%d strides with limit %d", len(w.Strides), ctl.Limit)
			return
		}
		consumed := 0
		for i, s := range w.Strides {
			if s.Consumed == nil {
				continue
			}
			if got := seqOf(s.Consumed); got != nextSeq {
				fail("consume-order", "stride %d of call %d reports as consumed %#v; the next message in order is number %d", i, calls, s.Consumed, nextSeq)
				return
			}
			nextSeq++
			consumed++
		}
		c.Add("consumed", consumed)
		if w.StoppedBecause == core.Done && consumed < len(batch) {
			// every node of an automaton consumes or leads to one that does
			fail("discard", "Done after consuming %d of the %d messages of call %d", consumed, len(batch), calls)
			return
		}
		if w.StoppedBecause != core.Done {
			if len(w.Remaining) != len(batch)-consumed {
				fail("remaining", "call %d stopped (%s) after consuming %d of %d messages and reports %d remaining", calls, w.StoppedBecause, consumed, len(batch), len(w.Remaining))
				return
			}
			for i, x := range w.Remaining {
				if seqOf(x) != nextSeq+i {
					fail("remaining", "call %d stopped (%s): Remaining[%d] is %#v, expected message number %d", calls, w.StoppedBecause, i, x, nextSeq+i)
					return
				}
			}
		}
		if to := w.To(); to != nil {
			st = to.Copy()
		}
		rest = rest[consumed:]
	}
	if len(rest) == 0 {
		// one more call without messages lets a machine that was stopped by a limit settle
		var w *core.Walked
		if c.Guard("Walk", func() { w, _ = spec.Walk(ctx, st, nil, &core.Control{Limit: 40}, nil) }) {
			return
		}
		if w != nil {
			if to := w.To(); to != nil {
				st = to.Copy()
			}
		}
		c.Count("histories_delivered")
		if want := expectNode(start, hist); st.NodeName != want {
			fail("end", "after the whole history the machine is at %s, the automaton at %s (start %s)", st.NodeName, want, start)
			return
		}
		if len(st.Bs) != 0 {
			fail("end", "after the whole history the machine has bindings %v; no pattern of an automaton binds anything", st.Bs)
			return
		}
	}
	c.MixHash(shape + desc + hdesc)
	c.Path = shape + hdesc
	c.Trivial = calls < 2
	c.Sample = map[string]interface{}{"automaton": desc, "history": hdesc, "calls": shape}
}
