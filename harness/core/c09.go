//go:build verif_sim

package ecmascript_test

// C09: crash/restart at message boundaries.  Twin A keeps the in-memory state;
// twin B serialises the state to JSON and reloads it at boundaries: once at
// every single boundary (enumerated), plus a tape-chosen subset.

import (
	"context"
	"encoding/json"
	"fmt"
	"sort"
	"strings"
	"testing"

	"github.com/Comcast/sheens/core"
	"github.com/Comcast/sheens/match"

	"verif/ref"
	"verif/sim"
)

func init() { registry["C09"] = runC09 }

// c09Spec generates programs whose later patterns inspect values produced by
// earlier actions (numbers inside arrays, nested objects, saved bindings of a
// failed step).
func c09Spec(c *sim.Ctx) *ref.Spec {
	vals := []interface{}{1.0, 2.5, 1000000.0, []interface{}{1.0}, []interface{}{1.0, "x"}, map[string]interface{}{"q": 1.0}, map[string]interface{}{"q": []interface{}{2.0}}, nil, "x", []interface{}{[]interface{}{1.0}},
		// objects inside arrays: a later in-place change reaches every part of the state that shares them
		[]interface{}{map[string]interface{}{"tries": 0.0}}, []interface{}{map[string]interface{}{"q": 1.0}, []interface{}{map[string]interface{}{"r": 2.0}}},
		[]interface{}{1.0, 2.0}}
	val := func() interface{} { return ref.CopyVal(vals[c.Intn(len(vals), "c09val")]) }
	pat := func() interface{} {
		k := bsKeys[c.Intn(3, "c09patkey")]
		switch c.Intn(5, "c09pat") {
		case 0:
			return map[string]interface{}{k: val()}
		case 1:
			return map[string]interface{}{k: []interface{}{1.0}}
		case 2:
			return map[string]interface{}{k: map[string]interface{}{"q": "?q"}}
		case 3:
			return map[string]interface{}{"lastBindings": map[string]interface{}{k: "?q"}}
		}
		return map[string]interface{}{k: "?q"}
	}
	nn := 2 + c.Intn(3, "nnodes")
	names := make([]string, nn)
	for i := range names {
		names[i] = fmt.Sprintf("n%d", i)
	}
	names = append(names, "error")
	s := &ref.Spec{Nodes: map[string]*ref.Node{}}
	if c.Chance(1, 4, "aeb") {
		s.ActionErrorBranches = true
	}
	tgt := func() string { return names[c.Intn(len(names), "c09target")] }
	for _, name := range names {
		n := &ref.Node{}
		if name == "error" {
			// the error node looks into the diagnostics
			n.HasBr = true
			n.Type = "bindings"
			if c.Bool("errmsg") {
				n.Type = "message"
				n.Branches = append(n.Branches, &ref.Branch{HasPat: true, Pattern: map[string]interface{}{"a": "?"}, Target: tgt()})
			} else {
				n.Branches = append(n.Branches, &ref.Branch{HasPat: true, Pattern: map[string]interface{}{"lastBindings": map[string]interface{}{bsKeys[c.Intn(3, "ek")]: "?q"}, "error": "?e"}, Target: "n0"})
			}
			s.Nodes[name] = n
			continue
		}
		switch c.Intn(3, "c09kind") {
		case 0: // message node that stores part of the message
			n.HasBr = true
			n.Type = "message"
			if c.Chance(1, 3, "ineqbranch") {
				// an inequality against a bound that an earlier action computed
				iv := []string{"?<n", "?>=n", "?!=n"}[c.Intn(3, "ineqvar")]
				n.Branches = append(n.Branches, &ref.Branch{HasPat: true, Pattern: map[string]interface{}{"a": iv}, Target: tgt()})
			}
			n.Branches = append(n.Branches, &ref.Branch{HasPat: true, Pattern: map[string]interface{}{"a": "?v"}, Target: tgt()})
			n.Branches = append(n.Branches, &ref.Branch{Target: tgt()})
		case 1, 2: // action node producing values, then bindings branching that inspects them
			a := &ref.Action{}
			for i := 0; i < 1+c.Intn(3, "c09ops"); i++ {
				switch c.Intn(13, "c09op") {
				case 0, 1, 2, 3:
					a.Ops = append(a.Ops, ref.Op{Kind: "set", K: bsKeys[c.Intn(3, "c09k")], V: val()})
				case 4:
					a.Ops = append(a.Ops, ref.Op{Kind: "emitb", K: bsKeys[c.Intn(3, "c09k")]})
				case 5:
					a.Ops = append(a.Ops, ref.Op{Kind: "setfrom", K: bsKeys[c.Intn(3, "c09k")], K2: "?v"})
				case 6:
					a.Ops = append(a.Ops, ref.Op{Kind: "throw"})
				case 7:
					a.Ops = append(a.Ops, ref.Op{Kind: "del", K: "?q"})
				case 11:
					// change an object nested in a binding in place
					a.Ops = append(a.Ops, ref.Op{Kind: "nest", K: bsKeys[c.Intn(3, "c09k")], K2: "touched", V: float64(1 + c.Intn(3, "touch"))})
				case 12:
					// a pattern variable bound to an array of integers, compared with a later message's array
					a.Ops = append(a.Ops, ref.Op{Kind: "set", K: "?v", V: [][]interface{}{{1.0, 2.0}, {1.0}, {2.0, "x"}}[c.Intn(3, "boundarr")]})
				case 10:
					// a pattern variable bound by the action (an integer) and re-used by a later message pattern
					a.Ops = append(a.Ops, ref.Op{Kind: "set", K: "?v", V: []interface{}{1.0, 2.0}[c.Intn(2, "boundv")]})
				case 8, 9:
					// a numeric bound for an inequality variable (integer or fraction)
					iv := []string{"?<n", "?>=n", "?!=n"}[c.Intn(3, "ineqvar")]
					a.Ops = append(a.Ops, ref.Op{Kind: "set", K: iv, V: []interface{}{1.0, 2.0, 1.5}[c.Intn(3, "bound")]})
					a.Ops = append(a.Ops, ref.Op{Kind: "del", K: "?n"})
				}
			}
			n.Action = a
			n.HasBr = true
			n.Type = "bindings"
			for i := 0; i < c.Intn(3, "c09nbr"); i++ {
				n.Branches = append(n.Branches, &ref.Branch{HasPat: true, Pattern: pat(), Target: tgt()})
			}
			if c.Chance(3, 4, "c09default") {
				n.Branches = append(n.Branches, &ref.Branch{Target: names[c.Intn(nn, "c09dt")]})
			}
		}
		s.Nodes[name] = n
	}
	// at least one message node so histories make progress
	s.Nodes["n0"] = &ref.Node{HasBr: true, Type: "message", Branches: []*ref.Branch{
		{HasPat: true, Pattern: map[string]interface{}{"a": "?v"}, Target: names[1%nn]}, {Target: names[1%nn]}}}
	return s
}

// c09IneqSpec: a deadline-style machine - an action computes a numeric bound,
// a later message is compared with it through an inequality variable.
func c09IneqSpec(c *sim.Ctx) *ref.Spec {
	iv := []string{"?<n", "?<=n", "?>n", "?>=n", "?!=n"}[c.Intn(5, "ineqvar")]
	bound := []interface{}{1.0, 2.0, 1.5, 0.0}[c.Intn(4, "bound")]
	arm := &ref.Action{Ops: []ref.Op{{Kind: "set", K: iv, V: bound}, {Kind: "del", K: "?v"}, {Kind: "del", K: "?n"}}}
	if c.Chance(1, 3, "keepn") {
		// the plain counterpart of the inequality variable is set by the action, too (an
		// integer): a later message must then satisfy the inequality and equal it
		arm.Ops[2] = ref.Op{Kind: "set", K: "?n", V: []interface{}{1.0, 2.0, 3.0}[c.Intn(3, "nval")]}
	}
	if c.Bool("armfromvalue") {
		arm.Ops[0] = ref.Op{Kind: "setfrom", K: iv, K2: "?v"}
		arm.Ops = append([]ref.Op{{Kind: "set", K: iv, V: bound}}, arm.Ops...)
	}
	fire := &ref.Action{Ops: []ref.Op{{Kind: "emitb", K: "?n"}, {Kind: "del", K: "?n"}}}
	if c.Bool("firekeepsn") {
		fire.Ops = fire.Ops[:1]
	}
	return &ref.Spec{Nodes: map[string]*ref.Node{
		"n0":    {HasBr: true, Type: "message", Branches: []*ref.Branch{{HasPat: true, Pattern: map[string]interface{}{"a": "?v"}, Target: "arm"}, {Target: "n0"}}},
		"arm":   {Action: arm, HasBr: true, Type: "bindings", Branches: []*ref.Branch{{Target: "armed"}}},
		"armed": {HasBr: true, Type: "message", Branches: []*ref.Branch{{HasPat: true, Pattern: map[string]interface{}{"a": iv}, Target: "fire"}, {HasPat: true, Pattern: map[string]interface{}{"b": "?"}, Target: "n0"}}},
		"fire":  {Action: fire, HasBr: true, Type: "bindings", Branches: []*ref.Branch{{Target: "armed"}}},
	}}
}

// c09ShareSpec: a value with objects inside an array ends up referenced from
// several places of one state (the saved bindings of a failed step, a variable
// bound to them), and a later action changes one of those objects in place.
func c09ShareSpec(c *sim.Ctx) *ref.Spec {
	k := bsKeys[c.Intn(3, "sharekey")]
	val := []interface{}{map[string]interface{}{"tries": 0.0}, []interface{}{map[string]interface{}{"r": 1.0}}}
	msg := func(next string) *ref.Node {
		return &ref.Node{HasBr: true, Type: "message", Branches: []*ref.Branch{{HasPat: true, Pattern: map[string]interface{}{"a": "?"}, Target: next}, {Target: next}}}
	}
	act := func(next string, ops ...ref.Op) *ref.Node {
		return &ref.Node{Action: &ref.Action{Ops: ops}, HasBr: true, Type: "bindings", Branches: []*ref.Branch{{Target: next}}}
	}
	s := &ref.Spec{Nodes: map[string]*ref.Node{
		"n0":    msg("make"),
		"make":  act("w1", ref.Op{Kind: "set", K: k, V: val}),
		"w1":    msg("fail"),
		"fail":  act("w2", ref.Op{Kind: "throw"}),
		"error": {HasBr: true, Type: "bindings", Branches: []*ref.Branch{{HasPat: true, Pattern: map[string]interface{}{"lastBindings": map[string]interface{}{k: "?q"}}, Target: "w2"}}},
		"w2":    msg("touch"),
		"touch": act("w3", ref.Op{Kind: "nest", K: k, K2: "touched", V: float64(1 + c.Intn(3, "touch"))}, ref.Op{Kind: "emitb", K: "?q"}),
		"w3":    msg("n0"),
	}}
	if c.Bool("touchq") {
		s.Nodes["touch"].Action.Ops[0].K = "?q"
		s.Nodes["touch"].Action.Ops[1].K = k
	}
	return s
}

// c09QuotaSpec: an action computes a number (an integer), and after the next message a
// bindings branch compares it with a bound through an inequality variable.
func c09QuotaSpec(c *sim.Ctx) *ref.Spec {
	iv := []string{"?<q", "?<=q", "?>q", "?>=q", "?!=q"}[c.Intn(5, "quotavar")]
	use := &ref.Action{Ops: []ref.Op{
		{Kind: "set", K: "used", V: []interface{}{1.0, 2.0, 3.0, 2.5}[c.Intn(4, "used")]},
		{Kind: "set", K: iv, V: []interface{}{2.0, 3.0, 1.5}[c.Intn(3, "quota")]},
		{Kind: "del", K: "?q"}}}
	emit := func(e float64) *ref.Action {
		return &ref.Action{Ops: []ref.Op{{Kind: "emit", V: map[string]interface{}{"e": e, "to": "x"}}, {Kind: "emitb", K: "?q"}, {Kind: "del", K: "?q"}}}
	}
	return &ref.Spec{Nodes: map[string]*ref.Node{
		"n0":    {HasBr: true, Type: "message", Branches: []*ref.Branch{{Target: "use"}}},
		"use":   {Action: use, HasBr: true, Type: "bindings", Branches: []*ref.Branch{{Target: "w"}}},
		"w":     {HasBr: true, Type: "message", Branches: []*ref.Branch{{Target: "check"}}},
		"check": {HasBr: true, Type: "bindings", Branches: []*ref.Branch{{HasPat: true, Pattern: map[string]interface{}{"used": iv}, Target: "ok"}, {Target: "over"}}},
		"ok":    {Action: emit(1), HasBr: true, Type: "bindings", Branches: []*ref.Branch{{Target: "n0"}}},
		"over":  {Action: emit(2), HasBr: true, Type: "bindings", Branches: []*ref.Branch{{Target: "n0"}}},
	}}
}

// c09GuardFailSpec: an action computes a large integer that stays bound; after the next
// message a guard fails - whatever the diagnostics say about the bindings at that point
// must read the same for a state that went through the store.
func c09GuardFailSpec(c *sim.Ctx) *ref.Spec {
	k := bsKeys[c.Intn(3, "gfkey")]
	calc := &ref.Action{Ops: []ref.Op{{Kind: "set", K: k, V: bigVals[c.Intn(len(bigVals), "gfval")]}, {Kind: "set", K: "qty", V: 4.0}}}
	boom := &ref.Action{Ops: []ref.Op{{Kind: "throw"}}}
	if c.Bool("gfbadret") {
		boom = &ref.Action{Ops: []ref.Op{{Kind: "retbad"}}}
	}
	report := &ref.Action{Ops: []ref.Op{{Kind: "emitb", K: "error"}, {Kind: "emitb", K: k}}}
	return &ref.Spec{Nodes: map[string]*ref.Node{
		"n0":    {HasBr: true, Type: "message", Branches: []*ref.Branch{{Target: "calc"}}},
		"calc":  {Action: calc, HasBr: true, Type: "bindings", Branches: []*ref.Branch{{Target: "w"}}},
		"w":     {HasBr: true, Type: "message", Branches: []*ref.Branch{{HasPat: true, Pattern: map[string]interface{}{"a": "?"}, Guard: boom, Target: "n0"}, {Target: "n0"}}},
		"error": {HasBr: true, Type: "message", Branches: []*ref.Branch{{Target: "tell"}}},
		"tell":  {Action: report, HasBr: true, Type: "bindings", Branches: []*ref.Branch{{Target: "n0"}}},
	}}
}

// c09ExtSpec: an action of the extended interpreter keeps what the _.match utility
// returned in its bindings; after the next message a pattern looks into it.
func c09ExtSpec(c *sim.Ctx) *ref.Spec {
	k := bsKeys[c.Intn(3, "extkey")]
	val := []interface{}{1.0, 2.0, "x"}[c.Intn(3, "extval")]
	store := &ref.Action{Ops: []ref.Op{{Kind: "matchstore", K: k, V: val}}}
	if c.Bool("storefirst") {
		store.Ops[0].K2 = "first" // keep only the first answer (an object), not the list
	}
	var look interface{} = map[string]interface{}{k: []interface{}{map[string]interface{}{"?x": val}}}
	if store.Ops[0].K2 == "first" {
		look = map[string]interface{}{k: map[string]interface{}{"?x": "?q"}}
	}
	emit := func(e float64) *ref.Action {
		return &ref.Action{Ops: []ref.Op{{Kind: "emit", V: map[string]interface{}{"e": e, "to": "x"}}, {Kind: "emitb", K: k}}}
	}
	return &ref.Spec{Nodes: map[string]*ref.Node{
		"n0":   {HasBr: true, Type: "message", Branches: []*ref.Branch{{HasPat: true, Pattern: map[string]interface{}{"a": "?v"}, Target: "q"}, {Target: "n0"}}},
		"q":    {Action: store, HasBr: true, Type: "bindings", Branches: []*ref.Branch{{Target: "w"}}},
		"w":    {HasBr: true, Type: "message", Branches: []*ref.Branch{{Target: "look"}}},
		"look": {HasBr: true, Type: "bindings", Branches: []*ref.Branch{{HasPat: true, Pattern: look, Target: "hit"}, {Target: "miss"}}},
		"hit":  {Action: emit(1), HasBr: true, Type: "bindings", Branches: []*ref.Branch{{Target: "n0"}}},
		"miss": {Action: emit(2), HasBr: true, Type: "bindings", Branches: []*ref.Branch{{Target: "n0"}}},
	}}
}

func reload(st *core.State) (*core.State, error) {
	js, err := json.Marshal(st)
	if err != nil {
		return nil, err
	}
	var out core.State
	if err := json.Unmarshal(js, &out); err != nil {
		return nil, err
	}
	return &out, nil
}

// oddTypes lists the Go types in a state that are not plain decoded-JSON types.
func oddTypes(x interface{}, inArray bool, acc map[string]bool) {
	switch v := x.(type) {
	case nil, bool, float64, string:
	case map[string]interface{}:
		for _, e := range v {
			oddTypes(e, false, acc)
		}
	case match.Bindings:
		acc["typed-map(match.Bindings)"] = true
		for _, e := range v {
			oddTypes(e, false, acc)
		}
	case []interface{}:
		for _, e := range v {
			oddTypes(e, true, acc)
		}
	default:
		where := ""
		if inArray {
			where = "-in-array"
		}
		acc[fmt.Sprintf("%T%s", x, where)] = true
	}
}

// c09TallySpec: an action counts into a map (integers); after the next message a bindings
// branch asks with a property variable which entry has reached a number.
func c09TallySpec(c *sim.Ctx) *ref.Spec {
	n := []interface{}{1.0, 2.0, 3.0}[c.Intn(3, "tallyn")]
	count := &ref.Action{Ops: []ref.Op{{Kind: "set", K: "tally", V: map[string]interface{}{"alice": 2.0, "bob": 1.0, "carol": 2.5}}}}
	emit := func(e float64) *ref.Action {
		return &ref.Action{Ops: []ref.Op{{Kind: "emit", V: map[string]interface{}{"e": e, "to": "x"}}, {Kind: "emitb", K: "?w"}, {Kind: "del", K: "?w"}}}
	}
	return &ref.Spec{Nodes: map[string]*ref.Node{
		"n0":    {HasBr: true, Type: "message", Branches: []*ref.Branch{{Target: "count"}}},
		"count": {Action: count, HasBr: true, Type: "bindings", Branches: []*ref.Branch{{Target: "w"}}},
		"w":     {HasBr: true, Type: "message", Branches: []*ref.Branch{{Target: "check"}}},
		"check": {HasBr: true, Type: "bindings", Branches: []*ref.Branch{{HasPat: true, Pattern: map[string]interface{}{"tally": map[string]interface{}{"?w": n}}, Target: "ok"}, {Target: "over"}}},
		"ok":    {Action: emit(1), HasBr: true, Type: "bindings", Branches: []*ref.Branch{{Target: "n0"}}},
		"over":  {Action: emit(2), HasBr: true, Type: "bindings", Branches: []*ref.Branch{{Target: "n0"}}},
	}}
}

// c09FreshErrSpec: a machine without any bindings fails at its first message and rests at
// the error node with its diagnostics (lastBindings is an empty object); the next message
// makes a branch look at them.
func c09FreshErrSpec(c *sim.Ctx) *ref.Spec {
	boom := &ref.Action{Ops: []ref.Op{{Kind: "throw"}}}
	if c.Bool("febadret") {
		boom = &ref.Action{Ops: []ref.Op{{Kind: "retbad"}}}
	}
	emit := func(e float64) *ref.Action {
		return &ref.Action{Ops: []ref.Op{{Kind: "emit", V: map[string]interface{}{"e": e, "to": "x"}}, {Kind: "emitb", K: "lastBindings"}, {Kind: "clear"}}}
	}
	var look interface{} = map[string]interface{}{"lastBindings": map[string]interface{}{}}
	if c.Bool("felooknull") {
		look = map[string]interface{}{"lastBindings": nil}
	}
	return &ref.Spec{Nodes: map[string]*ref.Node{
		"n0":    {HasBr: true, Type: "message", Branches: []*ref.Branch{{Target: "boom"}}},
		"boom":  {Action: boom, HasBr: true, Type: "bindings", Branches: []*ref.Branch{{Target: "n0"}}},
		"error": {HasBr: true, Type: "message", Branches: []*ref.Branch{{Target: "look"}}},
		"look":  {HasBr: true, Type: "bindings", Branches: []*ref.Branch{{HasPat: true, Pattern: look, Target: "hit"}, {Target: "miss"}}},
		"hit":   {Action: emit(1), HasBr: true, Type: "bindings", Branches: []*ref.Branch{{Target: "n0"}}},
		"miss":  {Action: emit(2), HasBr: true, Type: "bindings", Branches: []*ref.Branch{{Target: "n0"}}},
	}}
}

func runC09(c *sim.Ctx, t *testing.T) {
	c.PermuteOff = true
	sim.Install(c)
	defer sim.Uninstall()
	var gs *ref.Spec
	genExt = false
	switch c.Intn(12, "speckind") {
	case 11:
		gs = c09FreshErrSpec(c)
	case 10:
		gs = c09TallySpec(c)
	case 9:
		gs = c09GuardFailSpec(c)
	case 8:
		gs = c09QuotaSpec(c)
	case 0, 1:
		gs = genSpec(c, genCfg{failOps: true, permanents: true, guards: true, loops: true, maxNodes: 5, globals: true})
	case 2:
		gs = c09IneqSpec(c)
	case 3:
		gs = c09ShareSpec(c)
	case 7:
		gs = c09ExtSpec(c)
		genExt = true
	default:
		gs = c09Spec(c)
	}
	spec, err := compile(gs)
	if err != nil {
		c.Infra = "generated spec does not compile: " + err.Error() + specJSON(gs)
		return
	}
	ctx := context.Background()
	hist := genHistory(c, 6)
	for i := range hist {
		if c.Chance(1, 5, "arraymsg") {
			hist[i].(map[string]interface{})["a"] = [][]interface{}{{1.0, 2.0}, {1.0}, {2.0, "x"}}[c.Intn(3, "msgarr")]
		}
	}
	start := ref.State{Node: "n0", Bs: map[string]interface{}{}}
	ctl := &core.Control{Limit: 15}
	type obs struct{ state, emitted string }
	run := func(reloadAt map[int]bool) ([]obs, []*core.State, bool) {
		st := toState(start)
		var out []obs
		var states []*core.State
		for i, m := range hist {
			if reloadAt[i] {
				r, err := reload(st)
				if err != nil {
					c.Count("state_not_serialisable")
					return out, states, true
				}
				st = r
			}
			states = append(states, st)
			var w *core.Walked
			if c.Guard("Walk", func() { w, _ = spec.Walk(ctx, st, []interface{}{ref.CopyVal(m)}, ctl, nil) }) {
				return nil, nil, false
			}
			if to := w.To(); to != nil {
				st = to
			}
			// (error texts included: with the map-order seam switched off both twins take the
			// same path through the same code, so even a diagnostic text may not tell them apart)
			out = append(out, obs{st.NodeName + "/" + ref.Canon(map[string]interface{}(st.Bs)), canonList(allEmitted(w))})
		}
		return out, states, true
	}
	base, baseStates, ok := run(nil)
	if !ok {
		return
	}
	shape := ""
	for _, o := range base {
		shape += o.state[:strings.Index(o.state, "/")] + ","
	}
	// every boundary once (enumerated), then a tape-chosen subset
	var plans []map[int]bool
	for i := 1; i < len(hist); i++ {
		plans = append(plans, map[int]bool{i: true})
	}
	sub := map[int]bool{}
	for i := 1; i < len(hist); i++ {
		if c.Bool("reload") {
			sub[i] = true
		}
	}
	plans = append(plans, sub)
	for _, plan := range plans {
		got, _, ok := run(plan)
		if !ok {
			return
		}
		c.Count("restart_plans")
		for i := range got {
			if i >= len(base) {
				break
			}
			if got[i] != base[i] {
				// classify by what the in-memory state held when the twin was reloaded
				first := len(hist)
				for b := range plan {
					if b < first && b <= i {
						first = b
					}
				}
				odd := map[string]bool{}
				if first < len(baseStates) {
					oddTypes(map[string]interface{}(baseStates[first].Bs), false, odd)
				}
				var cls []string
				for k := range odd {
					cls = append(cls, k)
				}
				sort.Strings(cls)
				class := strings.Join(cls, "+")
				if class == "" {
					class = "plain"
				}
				var bounds []int
				for b := range plan {
					bounds = append(bounds, b)
				}
				sort.Ints(bounds)
				c.Violate("reload:"+class, "history %s from n0/{}: with the state written out as JSON and read back before message(s) %v, message %d ends at %s emitting %s; in memory it ends at %s emitting %s\nstate at the save point: %s\nspec: %s",
					ref.Canon(hist), bounds, i, got[i].state, got[i].emitted, base[i].state, base[i].emitted, stateCanon(baseStates[vfMinInt(first, len(baseStates)-1)]), specJSON(gs))
				return
			}
		}
	}
	c.MixHash(shape)
	c.Path = specJSON(gs) + shape
	c.Trivial = len(hist) < 2
	c.Sample = map[string]interface{}{"spec": gs, "history": hist, "nodes_visited": shape, "restart_points": len(plans)}
}

func vfMinInt(a, b int) int {
	if a < b {
		return a
	}
	return b
}
