//go:build verif_sim

package ecmascript_test

// C08 (core half): emission atomicity.  For an action with n emits, failure
// after the k-th emit is enumerated for every k in [0,n] and every failure kind,
// at a tape-chosen position of a walk, under each error-routing mode; plus
// generated programs checked stride by stride against the reference.

import (
	"context"
	"fmt"
	"testing"

	"github.com/Comcast/sheens/core"

	"verif/ref"
	"verif/sim"
)

func init() { registry["C08/core"] = runC08Core }

// checkEmissions walks the implementation and, stride by stride, compares what
// each stride reports as emitted with the emissions of the action executions
// the reference marks completed.  Returns false after recording a violation.
func checkEmissions(c *sim.Ctx, gs *ref.Spec, spec *core.Spec, start ref.State, hist []interface{}, tag string) bool {
	ctx := context.Background()
	var w *core.Walked
	if c.Guard("Walk", func() { w, _ = spec.Walk(ctx, toState(start), copyMsgs(hist), &core.Control{Limit: 40}, nil) }) {
		return false
	}
	if w == nil {
		return true
	}
	var want []interface{}
	next := 0
	for i, s := range w.Strides {
		var pending interface{}
		if next < len(hist) {
			pending = hist[next]
		}
		if s.From == nil {
			continue
		}
		r := gs.Step(fromCoreState(s.From), pending)
		if s.Consumed != nil {
			next++
		}
		var exp []interface{}
		known := true
		switch {
		case r.Kind == ref.Specified:
			exp = r.Emitted
		case r.Kind == ref.Error:
			// e.g. a guard failed after the node's action had completed: the
			// completed action's emissions still count
			exp = r.Emitted
		case r.Class == "action-no-branch":
			exp = r.Emitted
			if r.ActionFailed {
				exp = nil
			}
		default:
			known = false // action returned null: unspecified
		}
		if r.ActionFailed {
			c.Count("failed_actions")
			if len(s.Emitted) > 0 {
				c.Violate("emit:failed-action:"+tag, "stride %d at %s: the action failed but the stride reports emissions %s\nspec: %s",
					i, stateCanon(s.From), canonList(s.Emitted), specJSON(gs))
				return false
			}
		}
		if known {
			if canonList(s.Emitted) != canonList(exp) {
				rule := "stride"
				if r.Class == "guard-emitted" || len(exp) < len(s.Emitted) {
					rule = "extra"
				}
				c.Violate("emit:"+rule+":"+tag, "stride %d at %s (%s %s): reported emissions %s, the completed action emitted %s\nspec: %s",
					i, stateCanon(s.From), r.Kind, r.Class, canonList(s.Emitted), canonList(exp), specJSON(gs))
				return false
			}
			want = append(want, exp...)
		} else {
			want = append(want, s.Emitted...)
		}
		if r.ActionCompleted {
			c.Count("completed_actions")
		}
	}
	if got := allEmitted(w); canonList(got) != canonList(want) {
		c.Violate("emit:walk-order:"+tag, "DoEmitted yields %s, the strides in execution order %s\nspec: %s", canonList(got), canonList(want), specJSON(gs))
		return false
	}
	c.Add("strides", len(w.Strides))
	return true
}

func runC08Core(c *sim.Ctx, t *testing.T) {
	sim.Install(c)
	defer sim.Uninstall()
	// (A) a generated program and history, stride by stride
	cfg := genCfg{failOps: true, permanents: true, guards: true, guardEmits: true, loops: true, maxNodes: 5, errorNode: true}
	gs := genSpec(c, cfg)
	spec, err := compile(gs)
	if err != nil {
		c.Infra = "generated spec does not compile: " + err.Error()
		return
	}
	start := genState(c, gs, cfg)
	if start.Bs == nil {
		start.Bs = map[string]interface{}{}
	}
	hist := genHistory(c, 5)
	if !checkEmissions(c, gs, spec, start, hist, "generated") {
		return
	}

	// (B) enumeration: failure after the k-th emit, for every k and kind
	n := 1 + c.Intn(4, "nemits")
	mode := c.Intn(3, "errmode")
	pos := c.Intn(2, "position") // the failing action is the first or the second action of the walk
	guardEmits := c.Bool("guardemits")
	kinds := []string{"throw", "retbad", "emitbad", "retarr", "retfn", "retdate", "retzero", "retfalse", "retempty"}
	ks := []int{}
	for k := 0; k <= n; k++ {
		ks = append(ks, k)
	}
	if c.Chance(1, 10, "manyemits") {
		// an action that emits more than the buffers are first made for
		n = 15 + c.Intn(20, "nmany")
		ks = []int{0, n / 2, n - 1, n}
		kinds = []string{"throw", "retbad", "retzero", "none"} // none: the action completes
	}
	cases := 0
	for _, k := range ks {
		for _, kind := range kinds {
			var ops []ref.Op
			for i := 0; i < n; i++ {
				if i == k && kind != "none" {
					ops = append(ops, ref.Op{Kind: kind})
				}
				ops = append(ops, ref.Op{Kind: "emit", V: map[string]interface{}{"e": float64(i + 1)}})
				if i%2 == 0 {
					ops = append(ops, ref.Op{Kind: "set", K: "n", V: float64(i)})
				}
			}
			if k == n && kind != "none" {
				ops = append(ops, ref.Op{Kind: kind})
			}
			okAct := &ref.Action{Ops: []ref.Op{{Kind: "emit", V: map[string]interface{}{"ok": 1.0}}, {Kind: "emit", V: map[string]interface{}{"ok": 2.0}}}}
			failAct := &ref.Action{Ops: ops}
			first, second := failAct, okAct
			if pos == 1 {
				first, second = okAct, failAct
			}
			var guard *ref.Action
			if guardEmits {
				guard = &ref.Action{Ops: []ref.Op{{Kind: "emit", V: map[string]interface{}{"guard": 1.0}}}}
			}
			es := &ref.Spec{Nodes: map[string]*ref.Node{
				"s":    {HasBr: true, Type: "message", Branches: []*ref.Branch{{HasPat: true, Pattern: map[string]interface{}{"a": "?v"}, Guard: guard, Target: "a1"}}},
				"a1":   {Action: first, HasBr: true, Type: "bindings", Branches: []*ref.Branch{{Target: "a2"}}},
				"a2":   {Action: second, HasBr: true, Type: "bindings", Branches: []*ref.Branch{{Target: "s"}}},
				"aerr": {HasBr: true, Type: "message", Branches: []*ref.Branch{{Target: "s"}}},
			}}
			switch mode {
			case 1:
				es.ActionErrorBranches = true
			case 2:
				es.ActionErrorNode = "aerr"
			}
			espec, err := compile(es)
			if err != nil {
				c.Infra = "enumeration spec does not compile: " + err.Error()
				return
			}
			h := []interface{}{map[string]interface{}{"a": 1.0}, map[string]interface{}{"a": 2.0}, map[string]interface{}{"a": 3.0}}
			cases++
			if !checkEmissions(c, es, espec, ref.State{Node: "s", Bs: map[string]interface{}{}}, h, fmt.Sprintf("fail-after-k:%s", kind)) {
				c.Logf("n=%d k=%d kind=%s mode=%d pos=%d", n, k, kind, mode, pos)
				return
			}
		}
	}
	c.Add("fail_after_k_cases", cases)
	c.MixHash(fmt.Sprint(n, mode, pos, guardEmits))
	c.Path = fmt.Sprintf("%s|%d|%d|%d|%v", specJSON(gs), n, mode, pos, guardEmits)
	c.Sample = map[string]interface{}{"generated_spec": gs, "history": hist, "enumeration": fmt.Sprintf("n=%d emits, k=0..%d x %v, error mode %d, failing action position %d, guard emits %v", n, n, kinds, mode, pos, guardEmits)}
}
