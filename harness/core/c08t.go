//go:build verif_sim

package ecmascript_test

// C08 (timeout part): an action emits, then runs out of (simulated) time
// between two emissions; the deadline position is enumerated for every k.

import (
	"context"
	"fmt"
	"strings"
	"testing"
	"time"

	"github.com/Comcast/sheens/core"
	"github.com/Comcast/sheens/interpreters/ecmascript"
	"github.com/Comcast/sheens/match"

	"verif/sim"
)

func init() { registry["C08/timeout"] = runC08Timeout }

func runC08Timeout(c *sim.Ctx, t *testing.T) {
	n := 1 + c.Intn(4, "nemits")
	mode := c.Intn(3, "errmode")
	tickD := []time.Duration{time.Millisecond, 4 * time.Millisecond, 10 * time.Millisecond}[c.Intn(3, "tickd")]
	via := []string{"walk", "step", "exec"}[c.Intn(3, "via")]
	// after which emissions the script lets (simulated) time pass; lastTick < n: the tail of
	// the script runs without any pause, so that it can complete although its time is up
	// (the watcher has not been scheduled yet) - then all of its emissions count
	lastTick := n
	atWake := false
	if c.Chance(1, 2, "quicktail") {
		lastTick = 1 + c.Intn(n, "lasttick")
		// the time is up at the very instant the pause ends: script and watcher wake
		// together and the scheduler decides who goes first
		atWake = c.Bool("atwake")
	}
	var sb strings.Builder
	for i := 0; i < n; i++ {
		fmt.Fprintf(&sb, "_.out({\"e\": %d});", i+1)
		if i < lastTick {
			sb.WriteString(" _.props.tick();")
		}
		sb.WriteString("\n")
	}
	sb.WriteString("return _.bindings;\n")
	src := sb.String()
	interp := ecmascript.NewInterpreter()
	cases := 0
	for k := 0; k <= n; k++ {
		// the deadline falls inside the tick after the k-th emission (k == n: the script completes)
		deadline := time.Duration(k)*tickD + tickD/2
		if k == n {
			deadline = time.Duration(n+2) * tickD
		} else if k >= lastTick {
			continue // no pause there
		} else if atWake {
			deadline = time.Duration(k+1) * tickD
		}
		var emitted []interface{}
		var errText, node string
		actionError := false
		returned := false
		sim.Bubble(c, t, func(s *sim.Sched) {
			s.Horizon = time.Minute
			s.Go("x", func(tk *sim.Task) {
				ctx, cancel := context.WithTimeout(context.Background(), deadline)
				defer cancel()
				props := core.StepProps{"tick": func() { sim.Sleep(tickD) }}
				switch via {
				case "exec":
					exe, err := interp.Exec(ctx, match.Bindings{}, props, src, nil)
					if err != nil {
						errText = err.Error()
					}
					if exe != nil {
						emitted = exe.Emitted
					}
				default:
					spec := &core.Spec{Name: "t", Nodes: map[string]*core.Node{
						"a":    {ActionSource: &core.ActionSource{Interpreter: "ecmascript", Source: src}, Branches: &core.Branches{Type: "bindings", Branches: []*core.Branch{{Target: "b"}}}},
						"b":    {Branches: &core.Branches{Type: "message"}},
						"aerr": {Branches: &core.Branches{Type: "message"}},
					}}
					switch mode {
					case 1:
						spec.ActionErrorBranches = true
					case 2:
						spec.ActionErrorNode = "aerr"
					}
					if err := spec.Compile(context.Background(), core.InterpretersMap{"ecmascript": interp}, true); err != nil {
						errText = "compile: " + err.Error()
						break
					}
					st := &core.State{NodeName: "a", Bs: match.Bindings{}}
					if via == "step" {
						stride, err := spec.Step(ctx, st, nil, nil, props)
						if err != nil {
							errText = err.Error()
						}
						if stride != nil {
							emitted = stride.Emitted
							if stride.To != nil {
								node = stride.To.NodeName
								_, actionError = stride.To.Bs["actionError"]
							}
						}
					} else {
						w, _ := spec.Walk(ctx, st, nil, &core.Control{Limit: 3}, props)
						if w != nil {
							emitted = allEmitted(w)
							if to := w.To(); to != nil {
								node = to.NodeName
								_, actionError = to.Bs["actionError"]
							}
						}
					}
				}
				returned = true
			})
			s.Run()
			s.Drain(200)
		})
		cases++
		desc := fmt.Sprintf("action with %d emissions, deadline %v inside the tick after emission %d (tick %v), via %s, error mode %d", n, deadline, k, tickD, via, mode)
		if !returned {
			c.Violate("emit:timeout:still-running", "%s: the call did not return", desc)
			return
		}
		completed := (via == "exec" && errText == "") || (via != "exec" && node == "b" && !actionError)
		if k < n && completed {
			// the time ran out in the last pause and the rest of the script won the race
			// against the watcher: a completed action, all of its emissions count
			c.Count("completed_after_deadline")
			if len(emitted) != n {
				c.Violate("emit:completed-late:"+via, "%s: the action completed (its time ran out while it was running, the interrupt came too late) but %d of its %d emissions were reported (error %q, node %q)", desc, len(emitted), n, errText, node)
				return
			}
		} else if k < n {
			c.Count("timed_out_actions")
			if len(emitted) != 0 {
				c.Violate("emit:timeout:"+via, "%s: the action timed out but contributed %s (error %q, node %q)", desc, canonList(emitted), errText, node)
				return
			}
		} else {
			c.Count("completed_actions")
			if len(emitted) != n {
				c.Violate("emit:completed:"+via, "%s: the action completed but %d of its %d emissions were reported (error %q)", desc, len(emitted), n, errText)
				return
			}
		}
	}
	c.Add("deadline_positions", cases)
	c.MixHash(fmt.Sprint(n, mode, tickD, via, lastTick, atWake))
	c.Path = fmt.Sprint(n, mode, tickD, via, lastTick, atWake)
	c.Sample = map[string]interface{}{"script": src, "via": via, "error_mode": mode, "tick": tickD.String(), "deadline_positions": cases}
}
