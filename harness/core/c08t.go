//go:build verif_sim

package ecmascript_test

// C08 (timeout part): an action emits, then runs out of (simulated) time
// between two emissions; the deadline position is enumerated for every k.

import (
	"context"
	"fmt"
	"strings"
	"testing"
	"time"

	"github.com/Comcast/sheens/core"
	"github.com/Comcast/sheens/interpreters/ecmascript"
	"github.com/Comcast/sheens/match"

	"verif/sim"
)

func init() { registry["C08/timeout"] = runC08Timeout }

func runC08Timeout(c *sim.Ctx, t *testing.T) {
	n := 1 + c.Intn(4, "nemits")
	mode := c.Intn(3, "errmode")
	tickD := []time.Duration{time.Millisecond, 4 * time.Millisecond, 10 * time.Millisecond}[c.Intn(3, "tickd")]
	via := []string{"walk", "step", "exec"}[c.Intn(3, "via")]
	var sb strings.Builder
	for i := 0; i < n; i++ {
		fmt.Fprintf(&sb, "_.out({\"e\": %d}); _.props.tick();\n", i+1)
	}
	sb.WriteString("return _.bindings;\n")
	src := sb.String()
	interp := ecmascript.NewInterpreter()
	cases := 0
	for k := 0; k <= n; k++ {
		// the deadline falls inside the tick after the k-th emission (k == n: the script completes)
		deadline := time.Duration(k)*tickD + tickD/2
		if k == n {
			deadline = time.Duration(n+2) * tickD
		}
		var emitted []interface{}
		var errText, node string
		returned := false
		sim.Bubble(c, t, func(s *sim.Sched) {
			s.Horizon = time.Minute
			s.Go("x", func(tk *sim.Task) {
				ctx, cancel := context.WithTimeout(context.Background(), deadline)
				defer cancel()
				props := core.StepProps{"tick": func() { sim.Sleep(tickD) }}
				switch via {
				case "exec":
					exe, err := interp.Exec(ctx, match.Bindings{}, props, src, nil)
					if err != nil {
						errText = err.Error()
					}
					if exe != nil {
						emitted = exe.Emitted
					}
				default:
					spec := &core.Spec{Name: "t", Nodes: map[string]*core.Node{
						"a":    {ActionSource: &core.ActionSource{Interpreter: "ecmascript", Source: src}, Branches: &core.Branches{Type: "bindings", Branches: []*core.Branch{{Target: "b"}}}},
						"b":    {Branches: &core.Branches{Type: "message"}},
						"aerr": {Branches: &core.Branches{Type: "message"}},
					}}
					switch mode {
					case 1:
						spec.ActionErrorBranches = true
					case 2:
						spec.ActionErrorNode = "aerr"
					}
					if err := spec.Compile(context.Background(), core.InterpretersMap{"ecmascript": interp}, true); err != nil {
						errText = "compile: " + err.Error()
						break
					}
					st := &core.State{NodeName: "a", Bs: match.Bindings{}}
					if via == "step" {
						stride, err := spec.Step(ctx, st, nil, nil, props)
						if err != nil {
							errText = err.Error()
						}
						if stride != nil {
							emitted = stride.Emitted
							if stride.To != nil {
								node = stride.To.NodeName
							}
						}
					} else {
						w, _ := spec.Walk(ctx, st, nil, &core.Control{Limit: 3}, props)
						if w != nil {
							emitted = allEmitted(w)
							if to := w.To(); to != nil {
								node = to.NodeName
							}
						}
					}
				}
				returned = true
			})
			s.Run()
			s.Drain(200)
		})
		cases++
		desc := fmt.Sprintf("action with %d emissions, deadline %v inside the tick after emission %d (tick %v), via %s, error mode %d", n, deadline, k, tickD, via, mode)
		if !returned {
			c.Violate("emit:timeout:still-running", "%s: the call did not return", desc)
			return
		}
		if k < n {
			c.Count("timed_out_actions")
			if len(emitted) != 0 {
				c.Violate("emit:timeout:"+via, "%s: the action timed out but contributed %s (error %q, node %q)", desc, canonList(emitted), errText, node)
				return
			}
		} else {
			c.Count("completed_actions")
			if len(emitted) != n {
				c.Violate("emit:completed:"+via, "%s: the action completed but %d of its %d emissions were reported (error %q)", desc, len(emitted), n, errText)
				return
			}
		}
	}
	c.Add("deadline_positions", cases)
	c.MixHash(fmt.Sprint(n, mode, tickD, via))
	c.Path = fmt.Sprint(n, mode, tickD, via)
	c.Sample = map[string]interface{}{"script": src, "via": via, "error_mode": mode, "tick": tickD.String(), "deadline_positions": cases}
}
