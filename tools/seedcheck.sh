#!/bin/bash
# seedcheck.sh <PROP> <variant> <demo-file-name> <dest-dir-in-tree> <test-run-regex> [checks...]
# Confirms a seeded change in a scratch worktree (demo passes without / fails with the change, the
# existing suite still passes with it), then runs the /verif checks against /repo with the change
# applied and reverts it.  Prints one summary line.
set -u
export GOFLAGS=-mod=mod GOPROXY=off GOSUMDB=off
P=$1; V=$2; DEMO=$3; DEST=$4; RUN=$5; shift 5
CHECKS=${@:-$P}
SRC=${SEEDROOT:-/tmp/seeded_out}/$P/$V
WT=/tmp/wtv_${P}_$V
OUT=${SEEDROOT:-/tmp/seeded_out}/$P/$V/confirm.log
: > $OUT
git -C /repo worktree add -q --detach $WT HEAD >>$OUT 2>&1 || { echo "$P/$V worktree failed"; exit 1; }
cleanup() { git -C /repo worktree remove --force $WT >/dev/null 2>&1; }
trap cleanup EXIT
cp $SRC/$DEMO $WT/$DEST/
( cd $WT && go test -vet=off -count=1 -run "$RUN" ./$DEST/ ) >>$OUT 2>&1; WITHOUT=$?
if ! ( cd $WT && git apply $SRC/patch.diff ) >>$OUT 2>&1; then echo "$P/$V patch does not apply to current HEAD"; exit 1; fi
( cd $WT && go build ./... ) >>$OUT 2>&1; BUILD=$?
( cd $WT && go test -vet=off -count=1 -run "$RUN" ./$DEST/ ) >>$OUT 2>&1; WITH=$?
rm -f $WT/$DEST/$DEMO
( cd $WT && go test -vet=off -count=1 ./... ) >>$OUT 2>&1; SUITE=$?
RES=""
git -C /repo apply $SRC/patch.diff
for c in $CHECKS; do
  ( cd /verif && VERIF_KEEP_EVIDENCE=1 ./bin/verifctl check $c --tier quick ) > $SRC/check_$c.log 2>&1; rc=$?
  sig=$(grep -m1 "signature:" $SRC/check_$c.log | sed 's/.*signature: //')
  RES="$RES $c:exit=$rc[$sig]"
done
git -C /repo checkout -- .
rm -f /verif/replays/*.json
echo "$P/$V demo_without=$WITHOUT demo_with=$WITH build=$BUILD suite_with=$SUITE |$RES"
