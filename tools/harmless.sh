#!/bin/bash
# harmless.sh <dir-with-diffs> <checks...>: applies each behaviour-preserving change (*.diff) to
# /repo, runs the given quick checks, reverts.  Any exit code other than 0 is a false alarm
# (or trouble) to look into.  /repo must not be used by anything else meanwhile; with VERIF_REPO
# set (a scratch checkout, e.g. the snapshot of `vp run --with-repo`) that one is used instead.
set -u
D=$(cd "$1" && pwd); shift
cd "$(dirname "$0")/.."
REPO=${VERIF_REPO:-/repo}
for f in $D/*.diff; do
  if ! git -C $REPO apply $f 2>/dev/null; then echo "$f: does not apply"; continue; fi
  res=""
  for c in "$@"; do
    out=$(VERIF_KEEP_EVIDENCE=1 ./bin/verifctl check $c --tier quick 2>&1); rc=$?
    if [ $rc != 0 ]; then
      sig=$(echo "$out" | grep -m2 "signature:\|INFRA\|rror" | tr '\n' ' ' | cut -c1-200)
      res="$res $c:exit=$rc[$sig]"
      echo "$out" > $f.$c.log
    fi
  done
  git -C $REPO checkout -- .
  rm -f replays/*.json
  echo "$f:${res:- all quiet}"
done
