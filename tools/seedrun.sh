#!/bin/bash
# seedrun.sh <PROP> <variant> <checks...>   (SEEDROOT names the wave's directory)
# Applies the change to /repo, runs the quick checks in the given order until one reports,
# reverts.  /repo must not be used by anything else meanwhile.  Prints one line.
set -u
P=$1; V=$2; shift 2
SRC=${SEEDROOT:-/tmp/seeded_out}/$P/$V
cd /verif
git -C /repo apply $SRC/patch.diff || { echo "$P/$V patch does not apply"; exit 1; }
RES=""
for c in "$@"; do
  VERIF_KEEP_EVIDENCE=1 ./bin/verifctl check $c --tier quick > $SRC/check_$c.log 2>&1; rc=$?
  sig=$(grep -m1 "signature:" $SRC/check_$c.log | sed 's/.*signature: //')
  RES="$RES $c:exit=$rc[$sig]"
  [ $rc = 1 ] && break
done
git -C /repo checkout -- .
rm -f /verif/replays/*.json
echo "$P/$V |$RES"
