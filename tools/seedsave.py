#!/usr/bin/env python3
"""seedsave.py <wave-number> <seedroot> <wave-list> <seedcheck-results> <letters>
Files the confirmed changes of a wave under /verif/seeded/<P>-<letter>/ (patch.diff, demo,
notes.md, meta.json).  <letters> maps the sub-agent's a/b to this wave's letters, e.g. a=e,b=f."""
import json, os, re, shutil, sys

wave, root, listf, resf, letters = sys.argv[1:6]
letters = dict(x.split("=") for x in letters.split(","))
here = os.path.dirname(os.path.dirname(os.path.abspath(__file__)))
items = {}
for line in open(listf):
    f = line.split()
    if len(f) >= 5:
        items[(f[0], f[1])] = dict(demo=f[2], dest=f[3], run=f[4], checks=f[5:] or [f[0]])
for line in open(resf):
    m = re.match(r"(\w+)/(\w+) demo_without=(\d+) demo_with=(\d+) build=(\d+) suite_with=(\d+) \|(.*)", line)
    if not m:
        print("skipped:", line.strip())
        continue
    P, v = m.group(1), m.group(2)
    it = items[(P, v)]
    wo, wi, build, suite = (int(m.group(i)) for i in (3, 4, 5, 6))
    res = m.group(7).strip()
    src = os.path.join(root, P, v)
    ok = wo == 0 and wi != 0 and build == 0 and suite == 0
    if not ok:
        print("NOT CONFIRMED (not saved):", line.strip())
        continue
    dst = os.path.join(here, "seeded", "%s-%s" % (P, letters[v]))
    os.makedirs(dst, exist_ok=True)
    for f in ("patch.diff", "notes.md", it["demo"]):
        shutil.copy(os.path.join(src, f), dst)
    first = open(os.path.join(src, "notes.md")).readline().strip()
    detected = [x for x in res.split() if "exit=1" in x]
    meta = {
        "property": P, "variant": letters[v],
        "source": "independent sub-agent given only the property text and a scratch worktree (wave %s)" % wave,
        "breaks": first,
        "needs_to_manifest": "see notes.md (written by the sub-agent)",
        "demonstration": {"file": it["demo"], "copy_to": it["dest"] + "/",
                          "command": "go test -vet=off -count=1 -run '%s' ./%s/" % (it["run"], it["dest"]),
                          "passes_without_change": True, "fails_with_change": True},
        "confirmed": {"in": "scratch worktree of /repo HEAD (tools/seedcheck.sh)", "patch_applies": True, "builds": True,
                      "existing_suite_passes_with_change": True, "demo_exit_without": wo, "demo_exit_with": wi},
        "detected_by": res,
        "detected": bool(detected),
        "ran": "git -C /repo apply patch.diff; bin/verifctl check <property> --tier quick; git -C /repo checkout -- .",
    }
    json.dump(meta, open(os.path.join(dst, "meta.json"), "w"), indent=1)
    print("saved", dst, "detected" if detected else "MISSED", res)
