#!/bin/bash
# seedsweep.sh [<id>...]  - regression over the saved seeded changes (all of seeded/*/ by default).
# Applies each patch to the checkout named by $VERIF_REPO (which must be a scratch copy, e.g. the
# snapshot `vp run --with-repo` provides - never /repo while other checks are running), runs the
# quick checks named in its meta.json until one reports, and reverts.  Not evidence; a sweep.
set -u
cd "$(dirname "$0")/.."
REPO=${VERIF_REPO:?set VERIF_REPO to a scratch checkout}
ids=${@:-$(ls seeded | grep -v WAVES)}
caught=0; missed=0
for id in $ids; do
  d=seeded/$id
  [ -f $d/patch.diff ] || continue
  checks=$(python3 -c "
import json,re,sys
m=json.load(open('$d/meta.json'))
cs=re.findall(r'(C\d+):exit=(\d)', m.get('detected_by',''))
hit=[c for c,e in cs if e=='1']; rest=[c for c,e in cs if e!='1']
print(' '.join(hit+rest) or m['property'])")
  if ! git -C $REPO apply $PWD/$d/patch.diff 2>/dev/null; then echo "$id: patch does not apply"; continue; fi
  res=""; ok=0
  for c in $checks; do
    out=$(VERIF_KEEP_EVIDENCE=1 ./bin/verifctl check $c --tier quick 2>&1); rc=$?
    sig=$(echo "$out" | grep -m1 "signature:" | sed 's/.*signature: //')
    res="$res $c:exit=$rc[$sig]"
    if [ $rc = 1 ]; then ok=1; break; fi
  done
  git -C $REPO checkout -- . ; rm -f replays/*.json
  if [ $ok = 1 ]; then caught=$((caught+1)); echo "$id: caught |$res"; else missed=$((missed+1)); echo "$id: MISSED |$res"; fi
done
echo "seedsweep: caught=$caught missed=$missed"
