#!/usr/bin/env python3
"""Regenerates /verif/MANIFEST.json from the table below (run with python3)."""
import json

NA = {
 "C01": "pure function of (pattern, message, bindings): no schedule, clock, fault, crash point or history for a simulator to control; its only internal nondeterminism (map order) is C03 (DESIGN.md §4)",
 "C02": "pure function of its inputs; completeness quantifies over inputs only and needs enumeration or proof, a different technique (DESIGN.md §4)",
 "C13": "relation between several loads of one abstract spec; no schedule, time or fault in it; the reload-after-restart part is exercised by C15's restart oracle (DESIGN.md §4)",
 "C20": "Analyze/Dot/Mermaid are pure functions of the spec (DESIGN.md §4)",
}
PENDING = "check not built yet (work in progress; see DESIGN.md §3 for the plan)"

TRUST = "trusted: Go runtime and testing/synctest, race detector, goja, encoding/json, the reference models under /verif/ref; executors run instrumented copies of the working tree built with go1.26.8 (DESIGN.md §9)"

CHECKS = {
 "C03": ("exploration", "seeded search over order-sensitive (pattern, message, bindings) triples x tape-chosen permutations of every map iteration inside the matcher (small maps enumerated) x concurrent callers under the serial scheduler with the race monitor; evidence is counts of distinct explored cases", "§3 C03",
         "deterministic simulation: map-order seam + serial scheduler + race detector as happens-before monitor"),
 "C04": ("exploration", "every Spec.Step of thousands of generated machines per second is compared with a reference machine written from the documentation, with action failures injected so all error-routing modes are taken; seeded sampling of programs x states x messages x faults, not the exhaustive <=3-node enumeration (that would be model checking)", "§3 C04, Appendix A",
         "deterministic simulation: generated programs with injected action faults, per-step refinement against a reference machine"),
 "C05": ("exploration", "a simulated host interrupts and resumes delivery (batches, limits, breakpoints); the recorded history is checked for ordered exactly-once consumption, the step bound, truthful remainder, continuity, quiescence and split invariance", "§3 C05",
         "deterministic simulation: simulated host with interruption/resumption, history oracle"),
 "C06": ("exploration", "host retry and fan-out faults over generated programs with failing actions, rejecting guards, error endings and limit hits; deep snapshots of every argument before/after and comparison of two identical calls", "§3 C06",
         "deterministic simulation: host retry/fan-out faults with argument snapshots"),
 "C07": ("fault_enumeration", "for each generated program the product control x bindings x node x message x {Step, Walk} is enumerated completely under a panic trap with the failure kinds built into the program, and each generated document receives each structural fault kind through three loaders; the programs themselves are sampled", "§3 C07",
         "deterministic simulation: enumerated fault product under a panic trap, document faults at load"),
 "C08": ("fault_enumeration", "failure after the k-th emit is enumerated for every k and failure kind at both action positions of a walk, plus generated programs checked stride by stride against the reference's completed executions", "§3 C08",
         "deterministic simulation: fail-after-k-emits enumeration against a reference of completed executions"),
 "C09": ("fault_enumeration", "crash/restart (JSON round trip of the state) at every message boundary of each generated history, in lock step with an in-memory twin; programs and histories are sampled", "§3 C09",
         "deterministic simulation: crash/restart at every message boundary, lock-step twin"),
 "C10": ("exploration", "polluter/probe executions of the real interpreter (directly and through one shared compiled action with per-execution permanent bindings; with, with unencodable and without bindings), sequential and interleaved at script ticks under the serial scheduler with the race monitor", "§3 C10",
         "deterministic simulation: interleaved polluter/probe executions, race detector as monitor"),
 "C11": ("exploration", "script progress is simulated time (tick seam); deadlines and cancellations at every tick position, in actions, in guards of error branches and in getters of returned objects; bounded-step liveness (at most one further tick after the interrupt) and leak detection by bubble drain and live-goroutine census", "§3 C11",
         "deterministic simulation: simulated clock driven by script ticks, cancellation at tick N, leak = bubble cannot drain"),
 "C12": ("exploration", "concurrent walkers (one of them with a context cancelled mid-way) and a spec updater (independent versions, or version B derived from the live one, edited and compiled while walks are in flight) under the serial scheduler; race monitor; each result must equal its solo result under one version", "§3 C12",
         "deterministic simulation: serial scheduler over concurrent walkers + swapper, race detector as monitor"),
 "C14": ("exploration", "recorder machines and a counting oracle over generated crews, routing targets and histories; sio single loop (direct, and through its own Loop with submitted messages whose processing fails at the end), a metamorphic twin for crew operations carried in list-addressed messages, and mcrew with asynchronous re-injection and failing state writes under the scheduler", "§3 C14",
         "deterministic simulation: recorder machines with a counting oracle under seeded schedules and map orders"),
 "C15": ("fault_enumeration", "shadow store folded from Result.Changed compared with the live crew after every message; crash/restart at every message boundary of each generated history with a rebuilt twin crew; and a slow store folding results behind the crew's own Loop while timers fire and pipelined requests arrive, compared with the live crew at rest", "§3 C15",
         "deterministic simulation: shadow store + crash/restart at every boundary, twin crews"),
 "C16": ("fault_enumeration", "store-failure windows at every operation position (one client), plus concurrent clients under the serial scheduler checked with porcupine, plus both with the quiescent invariant memory == store", "§3 C16",
         "deterministic simulation: storage fault windows, seeded client interleavings, linearizability (porcupine)"),
 "C17": ("exploration", "seeded search over request plans x schedules x clock advances on the real timers code; each run's history is checked for linearizability against a sequential timer model (porcupine) plus exactly-once at the horizon", "§3 C17, Appendix B",
         "deterministic simulation (seeded serial scheduler + simulated clock) with linearizability checking of recorded histories"),
 "C18": ("exploration", "conservation invariant on every stride of simulated histories with failing actions, rejecting guards and stub interpreter outcomes", "§3 C18",
         "deterministic simulation: conservation invariant over simulated histories with injected action faults"),
 "C19": ("exploration", "simulated child process with stream faults (duplicate, drop, reorder, delay, noise, early exit), simulated timeouts and a context cancelled mid-session; reference verdict in the strict direction", "§3 C19",
         "deterministic simulation: simulated child process, stream faults and clock"),
}

def main():
    import os, sys
    built = [l.strip() for l in open('/verif/tools/built.txt') if l.strip() and not l.startswith('#')]
    props = [json.loads(l)["id"] for l in open('/verif/properties.jsonl')]
    m = {
     "version": 1,
     "setup_cmd": "sh /verif/setup.sh",
     "hooks": {
      "guard": "verif_sim",
      "enable": "no hooks are committed to /repo: /verif/bin/simrewrite generates instrumented copies of the working tree (yields, lock gates, map-order seam, exec seam) and verifctl builds them with go1.26.8 test -c -tags verif_sim -modfile=/verif/build/sheens.mod -overlay=/verif/build/overlay.json",
      "baseline_off_cmd": "cd /repo && go test -mod=mod -vet=off -count=1 -timeout 25m ./...",
      "source_commits": [],
      "add_only": True,
     },
     "engines": [
      {"name": "sim", "path": "/verif/sim", "serves_properties": built, "kind_free_text": "deterministic simulator: choice tape, cooperative serial scheduler over testing/synctest (fake clock), map-order seam, race detector as happens-before monitor, observation log; executors under /verif/harness are overlaid into the sheens packages"},
      {"name": "simrewrite", "path": "/verif/rewrite", "serves_properties": built, "kind_free_text": "go/packages-based source rewriter that generates the seams into an overlay at build time (nothing committed to /repo)"},
      {"name": "verifctl", "path": "/verif/cmd/verifctl", "serves_properties": built, "kind_free_text": "driver: rebuilds from /repo's working tree, runs seeded batches on all cores, classifies, minimises tapes, writes replay files and evidence"},
      {"name": "ref", "path": "/verif/ref", "serves_properties": [p for p in built if p in ("C04","C05","C07","C08","C09","C18")], "kind_free_text": "reference machine and mini-matcher written from the documentation"},
     ],
     "checks": [], "not_applicable": [],
     "notes": "VERIF_SEED seeds every tape; without it a documented constant is used so a bare invocation is reproducible. Exit 2 = infrastructure trouble (build, cannot instrument, nondeterminism), never a violation. known_findings.json lists open findings (printed as KNOWN-FINDING) and fixed ones (suppress nothing).",
    }
    for p in props:
        if p in built:
            lvl, text, ref, tech = CHECKS[p]
            m["checks"].append({
             "property_id": p,
             "quick_cmd": "bin/verifctl check %s --tier quick" % p,
             "thorough_cmd": "bin/verifctl check %s --tier thorough" % p,
             "evidence_file": "/verif/evidence/%s.json" % p,
             "replay_cmd_template": "bin/verifctl replay {path}",
             "engine": "sim",
             "level_claimed": {"category": lvl, "text": text, "design_ref": "DESIGN.md " + ref},
             "level_note": TRUST,
             "technique": tech,
            })
        else:
            m["not_applicable"].append({"property_id": p, "reason": NA.get(p, PENDING)})
    json.dump(m, open('/verif/MANIFEST.json', 'w'), indent=1)

main()
