#!/bin/bash
# seedconfirm.sh <PROP> <variant> <demo-file> <dest-dir> <run-regex>   (SEEDROOT names the wave's directory)
# Confirms a seeded change in its own scratch worktree of /repo HEAD: the demo passes without and
# fails with the change, the tree builds and the existing suite passes with it.  Touches neither
# /repo's working tree nor /verif, so several can run side by side.  Prints one line.
set -u
export GOFLAGS=-mod=mod GOPROXY=off GOSUMDB=off
P=$1; V=$2; DEMO=$3; DEST=$4; RUN=$5
SRC=${SEEDROOT:-/tmp/seeded_out}/$P/$V
WT=/tmp/wtc_${P}_$V
OUT=$SRC/confirm.log
: > $OUT
git -C /repo worktree add -q --detach $WT HEAD >>$OUT 2>&1 || { echo "$P/$V worktree failed"; exit 1; }
trap 'git -C /repo worktree remove --force $WT >/dev/null 2>&1' EXIT
cp $SRC/$DEMO $WT/$DEST/
( cd $WT && go test -vet=off -count=1 ${RACE:-} -run "$RUN" ./$DEST/ ) >>$OUT 2>&1; WITHOUT=$?
if ! ( cd $WT && git apply $SRC/patch.diff ) >>$OUT 2>&1; then echo "$P/$V patch does not apply to current HEAD"; exit 1; fi
( cd $WT && go build ./... ) >>$OUT 2>&1; BUILD=$?
( cd $WT && go test -vet=off -count=1 ${RACE:-} -run "$RUN" ./$DEST/ ) >>$OUT 2>&1; WITH=$?
rm -f $WT/$DEST/$DEMO
( cd $WT && go test -vet=off -count=1 ./... ) >>$OUT 2>&1; SUITE=$?
echo "$P/$V demo_without=$WITHOUT demo_with=$WITH build=$BUILD suite_with=$SUITE"
