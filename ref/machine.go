// Package ref holds the small executable reference models the simulated checks
// compare sheens against.  machine.go is the reference machine of DESIGN.md
// Appendix A: written from the README's "Processing" section, doc/by-example.md
// and the field documentation of core.Spec - not from core/step.go.  It has no
// dependency on sheens.
package ref

import (
	"encoding/json"
	"fmt"
	"sort"
	"strings"
)

// Op is one operation of the small deterministic action language; the same
// list is rendered as ECMAScript, as a native Go action and interpreted here.
type Op struct {
	Kind string      `json:"op"` // emit | emitb | set | setfrom | del | clear | throw | retnull | retbad | emitbad | nest | tick | spin
	K    string      `json:"k,omitempty"`
	K2   string      `json:"k2,omitempty"`
	V    interface{} `json:"v,omitempty"`
	N    int         `json:"n,omitempty"`
}

// Action is an action or a guard.
type Action struct {
	Ops     []Op   `json:"ops"`
	Native  bool   `json:"native,omitempty"`
	Noop    bool   `json:"noop,omitempty"`     // runs in the shipped noop interpreter (stub "same")
	InPlace bool   `json:"in_place,omitempty"` // native guards only: works directly on the bindings it is handed
	Stub    string `json:"stub,omitempty"`     // native only: "", "nil-err", "partial-err", "nil-bs"
}

// Branch of a node.
type Branch struct {
	Pattern interface{} `json:"pattern,omitempty"`
	HasPat  bool        `json:"has_pattern"`
	Guard   *Action     `json:"guard,omitempty"`
	Target  string      `json:"target"`
}

// Node of a spec.
type Node struct {
	Action   *Action   `json:"action,omitempty"`
	HasBr    bool      `json:"has_branching"`
	Type     string    `json:"type,omitempty"` // "message" | "bindings" | "" (default: bindings)
	Branches []*Branch `json:"branches,omitempty"`
}

// Spec is a generated machine specification.
type Spec struct {
	Nodes               map[string]*Node `json:"nodes"`
	ActionErrorBranches bool             `json:"actionErrorBranches,omitempty"`
	ActionErrorNode     string           `json:"actionErrorNode,omitempty"`
	NoAutoErrorNode     bool             `json:"noErrorNode,omitempty"`
	ErrorNode           string           `json:"errorNode,omitempty"` // the name under which compilation adds the terminal node ("" = "error")
}

// State of a machine.
type State struct {
	Node string
	Bs   map[string]interface{}
}

// Outcome kinds of a reference step.
const (
	Specified   = "specified"
	Error       = "error"
	Unspecified = "unspecified"
)

// StepResult is what the documentation says about one step.
type StepResult struct {
	Kind     string
	To       *State // nil: the machine stays where it is
	Consumed bool
	Emitted  []interface{}
	Class    string // for Error / Unspecified: which rule
	// ActionFailed is set when the node's action failed (whatever the routing).
	ActionFailed bool
	// ActionCompleted is set when the node's action ran to completion and returned bindings.
	ActionCompleted bool
}

// ExecResult is the outcome of running an action or guard in the reference.
type ExecResult struct {
	Outcome string // ok | fail | null | bad
	Bs      map[string]interface{}
	Emitted []interface{}
}

// CopyVal deep-copies a JSON value.
func CopyVal(x interface{}) interface{} {
	switch v := x.(type) {
	case map[string]interface{}:
		m := make(map[string]interface{}, len(v))
		for k, e := range v {
			m[k] = CopyVal(e)
		}
		return m
	case []interface{}:
		a := make([]interface{}, len(v))
		for i, e := range v {
			a[i] = CopyVal(e)
		}
		return a
	default:
		return x
	}
}

// CopyBs deep-copies bindings.
func CopyBs(bs map[string]interface{}) map[string]interface{} {
	if bs == nil {
		return nil
	}
	return CopyVal(bs).(map[string]interface{})
}

// Canon renders a value as canonical JSON (sorted keys, numbers normalised
// through float64), so that 1 and 1.0, and maps of different Go types, compare equal.
func Canon(x interface{}) string {
	b, err := json.Marshal(x)
	if err != nil {
		return fmt.Sprintf("!unmarshalable(%v)", err)
	}
	var y interface{}
	if err := json.Unmarshal(b, &y); err != nil {
		return "!" + string(b)
	}
	b, _ = json.Marshal(y)
	return string(b)
}

func isPermanent(k string) bool { return strings.HasSuffix(k, "!") }

// Exec interprets an action over a copy of bs.  Permanent bindings are
// restored into the result of a completed execution.
func (a *Action) Exec(bs map[string]interface{}) ExecResult {
	if a.Stub != "" {
		switch a.Stub {
		case "nil-err", "partial-err", "slice-err":
			return ExecResult{Outcome: "fail"}
		case "nil-bs":
			return ExecResult{Outcome: "null"}
		case "no-events", "no-traces":
			// what such an execution means is not documented: only totality is asserted
			return ExecResult{Outcome: "unknown"}
		case "same":
			// returns the bindings it was given (none given: like returning null)
			if bs == nil {
				return ExecResult{Outcome: "null"}
			}
			return ExecResult{Outcome: "ok", Bs: CopyBs(bs)}
		}
	}
	w := CopyBs(bs)
	if w == nil {
		w = map[string]interface{}{}
	}
	var out []interface{}
	gi := 0.0
	for _, op := range a.Ops {
		switch op.Kind {
		case "emit":
			out = append(out, CopyVal(op.V))
		case "emitb":
			out = append(out, map[string]interface{}{"got": CopyVal(w[op.K])})
		case "set":
			w[op.K] = CopyVal(op.V)
		case "setfrom":
			// as in a script: the two bindings now share one value
			if v, ok := w[op.K2]; ok {
				w[op.K] = v
			}
		case "nest":
			// mutate a nested value in place: an object, or the objects inside an
			// array (one level of arrays of arrays included)
			NestInto(w[op.K], op.K2, op.V)
		case "require":
			// (guards) reject unless the binding has the given scalar value
			if v, ok := w[op.K]; !ok || !scalarEq(v, op.V) {
				return ExecResult{Outcome: "null", Emitted: out}
			}
		case "setundef":
			w[op.K] = nil
		case "globalinc":
			// counts in a global of the script's runtime: every execution starts from a fresh one
			gi++
			w["g"] = 2 * gi
		case "randstr":
			w["r"] = "string"
		case "matchstore":
			if op.K2 == "first" {
				w[op.K] = map[string]interface{}{"?x": CopyVal(op.V)}
			} else {
				w[op.K] = []interface{}{map[string]interface{}{"?x": CopyVal(op.V)}}
			}
		case "del":
			delete(w, op.K)
		case "clear":
			w = map[string]interface{}{}
		case "throw", "emitbad", "spin":
			return ExecResult{Outcome: "fail"}
		case "retnull":
			return ExecResult{Outcome: "null", Emitted: out}
		case "retbad", "retarr", "retfn", "retdate", "retgetter", "retcyclic", "throwbare", "throwhostile", "throwplain", "throwarr", "retzero", "retfalse", "retempty":
			return ExecResult{Outcome: "bad"}
		case "tick":
		}
	}
	for k, v := range bs {
		if isPermanent(k) {
			w[k] = CopyVal(v)
		}
	}
	return ExecResult{Outcome: "ok", Bs: w, Emitted: out}
}

// ---- mini matcher for the generated pattern fragment -------------------------
//
// Patterns: maps whose values are scalar constants, nested maps of the same
// kind, variables ("?x"; a repeated variable only ever meets scalars), the
// anonymous variable "?", optional variables ("??x") and inequality variables
// ("?<n" etc., with a numeric bound under that name in the bindings).  No
// arrays with variables, no property variables.  For this fragment a match
// yields at most one set of bindings.

func isVar(s string) bool { return strings.HasPrefix(s, "?") }

// Uncertain is set when a match met a case the reference does not decide (a
// variable bound to a structured value compared with a different value).  Step
// resets it and answers Unspecified when it was set.
var Uncertain bool

func num(x interface{}) (float64, bool) {
	switch v := x.(type) {
	case float64:
		return v, true
	case int:
		return float64(v), true
	case int64:
		return float64(v), true
	}
	return 0, false
}

func scalarEq(a, b interface{}) bool {
	if fa, ok := num(a); ok {
		fb, ok2 := num(b)
		return ok2 && fa == fb
	}
	switch va := a.(type) {
	case nil:
		return b == nil
	case bool:
		vb, ok := b.(bool)
		return ok && va == vb
	case string:
		vb, ok := b.(string)
		return ok && va == vb
	}
	return false
}

// hasVarString: does the value contain a string that looks like a pattern variable?
func hasVarString(x interface{}) bool {
	switch v := x.(type) {
	case string:
		return isVar(v)
	case map[string]interface{}:
		for k, e := range v {
			if isVar(k) || hasVarString(e) {
				return true
			}
		}
	case []interface{}:
		for _, e := range v {
			if hasVarString(e) {
				return true
			}
		}
	}
	return false
}

// Match returns the extended bindings, or nil when the pattern does not match.
func Match(pat, fact interface{}, bs map[string]interface{}) map[string]interface{} {
	w := make(map[string]interface{}, len(bs)+2)
	for k, v := range bs {
		w[k] = v
	}
	if matchInto(pat, fact, w) {
		return w
	}
	return nil
}

func matchInto(pat, fact interface{}, bs map[string]interface{}) bool {
	switch p := pat.(type) {
	case string:
		if !isVar(p) {
			return scalarEq(p, fact)
		}
		if p == "?" {
			return true
		}
		if ok, used := inequality(p, fact, bs); used {
			return ok
		}
		if bound, have := bs[p]; have {
			switch bound.(type) {
			case map[string]interface{}, []interface{}:
				// A structured value bound earlier is re-used as a pattern by the
				// implementation (partial matching); the reference only knows the
				// clear cases: identical values match, anything else is left open.
				if Canon(bound) == Canon(fact) && !hasDuplicateScalars(bound) && !hasVarString(bound) {
					return true
				}
				Uncertain = true
				return false
			}
			// a bound scalar is a value - also a string that looks like a variable
			return scalarEq(bound, fact)
		}
		bs[p] = fact
		return true
	case map[string]interface{}:
		f, ok := fact.(map[string]interface{})
		if !ok {
			return false
		}
		keys := make([]string, 0, len(p))
		for k := range p {
			keys = append(keys, k)
		}
		sort.Strings(keys)
		for _, k := range keys {
			fv, have := f[k]
			if !have {
				if s, ok := p[k].(string); ok && strings.HasPrefix(s, "??") {
					continue
				}
				return false
			}
			if !matchInto(p[k], fv, bs) {
				return false
			}
		}
		return true
	case []interface{}:
		// constants only: every pattern element equals some distinct fact element
		f, ok := fact.([]interface{})
		if !ok {
			return false
		}
		used := make([]bool, len(f))
	next:
		for _, pe := range p {
			for i, fe := range f {
				if !used[i] && scalarEq(pe, fe) {
					used[i] = true
					continue next
				}
			}
			return false
		}
		return true
	default:
		return scalarEq(pat, fact)
	}
}

// inequality implements the documented rule: with a numeric bound Y under the
// variable's own name, a numeric fact X matches iff X op Y, and the plain-named
// variable is bound to X (or must already equal X).
func inequality(v string, fact interface{}, bs map[string]interface{}) (ok, used bool) {
	if len(v) < 3 {
		return false, false
	}
	var op string
	for _, o := range []string{"<=", ">=", "!=", "<", ">"} {
		if strings.HasPrefix(v[1:], o) {
			op = o
			break
		}
	}
	if op == "" {
		return false, false
	}
	b, have := bs[v]
	if !have {
		return false, false
	}
	y, isNum := num(b)
	if !isNum {
		return false, false
	}
	x, isNum := num(fact)
	if !isNum {
		return false, false
	}
	plain := "?" + v[1+len(op):]
	sat := false
	switch op {
	case "<":
		sat = x < y
	case "<=":
		sat = x <= y
	case ">":
		sat = x > y
	case ">=":
		sat = x >= y
	case "!=":
		sat = x != y
	}
	if !sat {
		return false, true
	}
	if cur, have := bs[plain]; have {
		c, isNum := num(cur)
		if !isNum {
			return false, false
		}
		return c == x, true
	}
	bs[plain] = x
	return true, true
}

// ---- the step rule -----------------------------------------------------------

// Step is the documented transition rule.  pending == nil means no message.
func (s *Spec) Step(st State, pending interface{}) StepResult {
	Uncertain = false
	r := s.step(st, pending)
	if Uncertain && r.Kind != Unspecified {
		return StepResult{Kind: Unspecified, Class: "structured-bound-variable", ActionFailed: r.ActionFailed, ActionCompleted: r.ActionCompleted}
	}
	return r
}

func (s *Spec) step(st State, pending interface{}) StepResult {
	n, have := s.Nodes[st.Node]
	if !have {
		auto := s.ErrorNode
		if auto == "" {
			auto = "error"
		}
		if st.Node == auto && !s.NoAutoErrorNode {
			// the error node is added at compile time, under the name the spec gives it: a
			// terminal node.  (Failures still lead to "error": with another name given, a
			// machine that failed sits at a node the spec does not have.)
			n = &Node{}
		} else {
			return StepResult{Kind: Error, Class: "unknown-node"}
		}
	}
	typ := n.Type
	if typ == "" {
		typ = "bindings"
	}
	if n.Action != nil && n.HasBr && typ == "message" {
		return StepResult{Kind: Error, Class: "bad-branching"}
	}
	bs := CopyBs(st.Bs)
	if bs == nil {
		bs = map[string]interface{}{}
	}
	var out []interface{}
	res := StepResult{}
	if n.Action != nil {
		r := n.Action.Exec(bs)
		switch r.Outcome {
		case "ok":
			bs = r.Bs
			out = r.Emitted
			res.ActionCompleted = true
		case "null", "unknown":
			return StepResult{Kind: Unspecified, Class: "action-returned-null"}
		default: // fail, bad
			res.ActionFailed = true
			bs["actionError"] = "x"
			bs["error"] = "x"
			if !s.ActionErrorBranches {
				if s.ActionErrorNode != "" {
					return StepResult{Kind: Specified, To: &State{s.ActionErrorNode, bs}, ActionFailed: true, Class: "action-error-node"}
				}
				return StepResult{Kind: Error, Class: "action-error", ActionFailed: true}
			}
		}
	}
	res.Emitted = out
	if !n.HasBr {
		if n.Action != nil {
			return StepResult{Kind: Unspecified, Class: "action-no-branch", Emitted: out, ActionFailed: res.ActionFailed, ActionCompleted: res.ActionCompleted}
		}
		res.Kind = Specified
		return res
	}
	var against interface{}
	consumer := typ == "message"
	if consumer {
		if pending == nil {
			res.Kind = Specified
			return res
		}
		against = pending
		res.Consumed = true
	} else {
		against = map[string]interface{}(bs)
	}
	for _, b := range n.Branches {
		cands := []map[string]interface{}{bs}
		if b.HasPat {
			cands = MatchAll(b.Pattern, against, bs)
			if len(cands) == 0 {
				continue
			}
		}
		resolve := func(chosen map[string]interface{}) string {
			target := b.Target
			if strings.HasPrefix(target, "@") && len(chosen) > 0 {
				if s, ok := chosen[target[1:]].(string); ok {
					target = s
				}
			}
			return target
		}
		if b.Guard == nil {
			if len(cands) > 1 {
				res.Kind = Error
				res.Class = "too-many-candidates"
				res.To = nil
				return res
			}
			res.Kind = Specified
			res.To = &State{resolve(cands[0]), cands[0]}
			return res
		}
		// the guard is offered the candidates in an unspecified order; the first
		// one it accepts decides
		var accepted []map[string]interface{}
		failed, emitted := 0, false
		for _, cand := range cands {
			g := b.Guard.Exec(cand)
			if g.Outcome == "unknown" {
				return StepResult{Kind: Unspecified, Class: "guard-undocumented-result", Emitted: out, ActionFailed: res.ActionFailed, ActionCompleted: res.ActionCompleted}
			}
			switch g.Outcome {
			case "ok":
				accepted = append(accepted, g.Bs)
				if len(g.Emitted) > 0 {
					emitted = true
				}
			case "null":
			default:
				failed++
			}
		}
		if emitted {
			res.Class = "guard-emitted"
		}
		if failed > 0 {
			if len(cands) == 1 || failed == len(cands) {
				res.Kind = Error
				res.Class = "guard-error"
				res.To = nil
				return res
			}
			// whether the failing candidate is reached before an accepted one is not specified
			return StepResult{Kind: Unspecified, Class: "several-candidates", Emitted: out, ActionFailed: res.ActionFailed, ActionCompleted: res.ActionCompleted}
		}
		if len(accepted) == 0 {
			continue
		}
		first := accepted[0]
		for _, a := range accepted[1:] {
			if Canon(a) != Canon(first) || resolve(a) != resolve(first) {
				return StepResult{Kind: Unspecified, Class: "several-candidates", Emitted: out, ActionFailed: res.ActionFailed, ActionCompleted: res.ActionCompleted}
			}
		}
		res.Kind = Specified
		res.To = &State{resolve(first), first}
		return res
	}
	if n.Action != nil {
		res.Kind = Unspecified
		res.Class = "action-no-branch"
		return res
	}
	res.Kind = Specified
	return res
}

// HasError reports whether bindings carry the documented error keys.
func HasKeys(bs map[string]interface{}, keys ...string) bool {
	for _, k := range keys {
		if _, ok := bs[k]; !ok {
			return false
		}
	}
	return true
}

// NestInto sets key k2 in x if x is an object, or in every object found inside
// x if x is an array (descending through nested arrays).
func NestInto(x interface{}, k2 string, v interface{}) {
	switch t := x.(type) {
	case map[string]interface{}:
		t[k2] = CopyVal(v)
	case []interface{}:
		for _, e := range t {
			switch e.(type) {
			case map[string]interface{}, []interface{}:
				NestInto(e, k2, v)
			}
		}
	}
}

// MatchAll is Match for patterns that may yield several candidates: besides the
// fragment of Match, a pattern array may hold one variable next to scalar
// constants; against a fact array of scalars it yields one candidate per fact
// element not claimed by a constant.
func MatchAll(pat, fact interface{}, bs map[string]interface{}) []map[string]interface{} {
	w := make(map[string]interface{}, len(bs)+2)
	for k, v := range bs {
		w[k] = v
	}
	return matchAll(pat, fact, w)
}

func copyMap(m map[string]interface{}) map[string]interface{} {
	c := make(map[string]interface{}, len(m)+1)
	for k, v := range m {
		c[k] = v
	}
	return c
}

func matchAll(pat, fact interface{}, bs map[string]interface{}) []map[string]interface{} {
	switch p := pat.(type) {
	case map[string]interface{}:
		f, ok := fact.(map[string]interface{})
		if !ok {
			return nil
		}
		keys := make([]string, 0, len(p))
		for k := range p {
			keys = append(keys, k)
		}
		sort.Strings(keys)
		cands := []map[string]interface{}{bs}
		for _, k := range keys {
			fv, have := f[k]
			if !have {
				if s, ok := p[k].(string); ok && strings.HasPrefix(s, "??") {
					continue
				}
				return nil
			}
			var next []map[string]interface{}
			for _, c := range cands {
				next = append(next, matchAll(p[k], fv, copyMap(c))...)
			}
			cands = next
			if len(cands) == 0 {
				return nil
			}
		}
		return cands
	case []interface{}:
		variable := ""
		var consts []interface{}
		for _, e := range p {
			if s, ok := e.(string); ok && isVar(s) {
				variable = s
				continue
			}
			consts = append(consts, e)
		}
		if variable == "" {
			if matchInto(pat, fact, bs) {
				return []map[string]interface{}{bs}
			}
			return nil
		}
		f, ok := fact.([]interface{})
		if !ok {
			return nil
		}
		used := make([]bool, len(f))
	next:
		for _, pe := range consts {
			for i, fe := range f {
				if !used[i] && scalarEq(pe, fe) {
					used[i] = true
					continue next
				}
			}
			return nil
		}
		// the fact array is a set: equal scalar members count once
		var out []map[string]interface{}
		seen := map[string]bool{}
		for i, fe := range f {
			if used[i] || seen[Canon(fe)] {
				continue
			}
			dupOfUsed := false
			for j, fj := range f {
				if used[j] && Canon(fj) == Canon(fe) {
					dupOfUsed = true
				}
			}
			if dupOfUsed {
				continue
			}
			seen[Canon(fe)] = true
			c := copyMap(bs)
			if matchInto(variable, fe, c) {
				out = append(out, c)
			}
		}
		return out
	default:
		if matchInto(pat, fact, bs) {
			return []map[string]interface{}{bs}
		}
		return nil
	}
}

// hasDuplicateScalars reports an array (at any depth) with two equal scalar
// members: outside the documented fragment (arrays are sets).
func hasDuplicateScalars(x interface{}) bool {
	switch v := x.(type) {
	case map[string]interface{}:
		for _, e := range v {
			if hasDuplicateScalars(e) {
				return true
			}
		}
	case []interface{}:
		seen := map[string]bool{}
		for _, e := range v {
			switch e.(type) {
			case map[string]interface{}, []interface{}:
				if hasDuplicateScalars(e) {
					return true
				}
			default:
				k := Canon(e)
				if seen[k] {
					return true
				}
				seen[k] = true
			}
		}
	}
	return false
}
