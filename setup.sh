#!/bin/sh
# Builds the verification machinery offline from files on disk only.
set -e
export GOFLAGS=-mod=mod GOPROXY=off GOSUMDB=off GOTOOLCHAIN=local
GO=/opt/veriftools/go1.26.8/bin/go
cd "$(dirname "$0")"
mkdir -p bin evidence replays
(cd rewrite && $GO build -o ../bin/simrewrite .)
$GO build -o bin/verifctl ./cmd/verifctl
# compile every executor once so the race-instrumented standard library is in
# the build cache before the first check is timed
./bin/verifctl prebuild
