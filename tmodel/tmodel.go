// Package tmodel is the sequential timer model of DESIGN.md Appendix B and the
// history checker built on it (porcupine), shared by the mcrew and sio timer
// harnesses.
package tmodel

import (
	"fmt"
	"sort"
	"strings"
	"time"

	"github.com/anishathalye/porcupine"

	"verif/sim"
)

// ---- timers as a linearizable object per id (DESIGN.md Appendix B) ---------

type tmIn struct {
	kind    string // make | cancel | fire
	payload string
	d       time.Duration
	invAt   time.Duration
}

type tmOut struct {
	res    string // ok | exists | notfound
	fireAt time.Duration
}

type tmState struct {
	pending bool
	payload string
	due     time.Duration
}

var tmModel = porcupine.Model{
	Init: func() interface{} { return tmState{} },
	Step: func(st, in, out interface{}) (bool, interface{}) {
		s := st.(tmState)
		i := in.(tmIn)
		o := out.(tmOut)
		switch i.kind {
		case "make":
			switch o.res {
			case "ok":
				if s.pending {
					return false, s
				}
				return true, tmState{true, i.payload, i.invAt + i.d}
			case "exists":
				return s.pending, s
			}
		case "cancel":
			switch o.res {
			case "ok":
				if !s.pending {
					return false, s
				}
				return true, tmState{}
			case "notfound":
				return !s.pending, s
			case "any": // the implementation gives no acknowledgement
				return true, tmState{}
			}
		case "observe":
			return (o.res == "present") == s.pending, s
		case "fire":
			if !s.pending || s.payload != i.payload || o.fireAt < s.due {
				return false, s
			}
			return true, tmState{}
		}
		return false, s
	},
	DescribeOperation: func(in, out interface{}) string {
		i := in.(tmIn)
		o := out.(tmOut)
		switch i.kind {
		case "make":
			return fmt.Sprintf("make(%s,%v)@%v->%s", i.payload, i.d, i.invAt, o.res)
		case "cancel":
			return fmt.Sprintf("cancel->%s", o.res)
		case "observe":
			return fmt.Sprintf("reported-pending->%s", o.res)
		}
		return fmt.Sprintf("fire(%s)@%v", i.payload, o.fireAt)
	},
}

// CheckHistory checks the recorded history of one timers implementation.
// complete = the run reached its horizon (every due time has passed and all
// requests returned), so exactly-once can be asserted.
func CheckHistory(c *sim.Ctx, host string, evs []sim.Ev, complete bool) {
	type open struct {
		in  tmIn
		seq int
	}
	byId := map[string][]porcupine.Operation{}
	pending := map[string]*open{} // task -> open op
	idOf := map[string]string{}   // payload -> id
	dOf := map[string]time.Duration{}
	invAtOf := map[string]time.Duration{}
	accepted := map[string]bool{}
	fires := map[string]int{}
	type obsRec struct {
		inv, ret int
		task     string
		set      string
	}
	var obs []obsRec
	client := map[string]int{}
	cid := func(task string) int {
		if _, ok := client[task]; !ok {
			client[task] = len(client)
		}
		return client[task]
	}
	for _, e := range evs {
		switch e.Kind {
		case "add.inv":
			idOf[e.Val] = e.Id
			dOf[e.Val] = time.Duration(e.N)
			invAtOf[e.Val] = e.At
			pending[e.Task+"/op"] = &open{tmIn{"make", e.Val, time.Duration(e.N), e.At}, e.Seq}
		case "add.ret":
			o := pending[e.Task+"/op"]
			delete(pending, e.Task+"/op")
			res := "ok"
			switch {
			case e.Err == "":
				accepted[e.Val] = true
			case strings.Contains(e.Err, "exists"):
				res = "exists"
			default:
				c.Violate("timer:"+host+":make-error", "make(%s) returned unexpected error %q", e.Val, e.Err)
				continue
			}
			byId[e.Id] = append(byId[e.Id], porcupine.Operation{ClientId: cid(e.Task), Input: o.in, Call: int64(2 * o.seq), Output: tmOut{res: res}, Return: int64(2 * e.Seq)})
		case "rem.inv":
			pending[e.Task+"/op"] = &open{tmIn{kind: "cancel"}, e.Seq}
		case "rem.ret":
			o := pending[e.Task+"/op"]
			if o == nil {
				continue // (a planned stop that was never issued)
			}
			delete(pending, e.Task+"/op")
			res := "ok"
			switch {
			case e.Err == "":
			case strings.Contains(e.Err, "not found"), strings.Contains(e.Err, "doesn't exist"):
				res = "notfound"
			case e.Err == "?":
				res = "any"
			default:
				c.Violate("timer:"+host+":cancel-error", "cancel(%s) returned unexpected error %q", e.Id, e.Err)
				continue
			}
			byId[e.Id] = append(byId[e.Id], porcupine.Operation{ClientId: cid(e.Task), Input: o.in, Call: int64(2 * o.seq), Output: tmOut{res: res}, Return: int64(2 * e.Seq)})
		case "obs.inv":
			pending[e.Task+"/obs"] = &open{tmIn{kind: "observe"}, e.Seq}
		case "obs.ret":
			o := pending[e.Task+"/obs"]
			delete(pending, e.Task+"/obs")
			if e.Err != "" {
				c.Violate("timer:"+host+":observe-error", "reading the pending timers failed: %s", e.Err)
				continue
			}
			c.Count("pending_set_observations")
			obs = append(obs, obsRec{o.seq, e.Seq, e.Task, "," + e.Val + ","})
		case "fire":
			id, ok := idOf[e.Val]
			if !ok {
				c.Violate("timer:"+host+":fire:unknown", "fired an unknown payload %q", e.Val)
				continue
			}
			fires[e.Val]++
			if fires[e.Val] > 1 {
				c.Violate("timer:"+host+":fire:twice", "timer %s (payload %s) fired %d times", id, e.Val, fires[e.Val])
			}
			due := invAtOf[e.Val] + dOf[e.Val]
			if e.At < due {
				c.Violate("timer:"+host+":fire:early", "timer %s (payload %s) fired at %v, before its due time %v", id, e.Val, e.At, due)
			}
			// the firing may take effect anywhere between the moment the clock
			// reached the due time and the entry into the handler
			call := 2 * e.Seq
			for _, x := range evs {
				if x.At >= due && x.Seq <= e.Seq {
					call = 2*x.Seq - 1
					break
				}
			}
			byId[id] = append(byId[id], porcupine.Operation{ClientId: 1000 + cid(e.Task+e.Val), Input: tmIn{kind: "fire", payload: e.Val}, Call: int64(call), Output: tmOut{fireAt: e.At}, Return: int64(2 * e.Seq)})
		}
	}
	// requests in flight when the run ended cannot be judged
	openOps := len(pending)
	ids := make([]string, 0, len(byId))
	for id := range byId {
		ids = append(ids, id)
	}
	sort.Strings(ids)
	// an observation of the reported pending set is a read of every id
	for _, ob := range obs {
		for _, id := range ids {
			res := "absent"
			if strings.Contains(ob.set, ","+id+",") {
				res = "present"
			}
			byId[id] = append(byId[id], porcupine.Operation{ClientId: cid(ob.task), Input: tmIn{kind: "observe"}, Call: int64(2 * ob.inv), Output: tmOut{res: res}, Return: int64(2 * ob.ret)})
		}
		for _, id := range strings.Split(strings.Trim(ob.set, ","), ",") {
			if id != "" && byId[id] == nil {
				c.Violate("timer:"+host+":observe:unknown", "the pending set reports id %q that was never requested", id)
			}
		}
	}
	for _, id := range ids {
		ops := byId[id]
		c.Add("history_ops", len(ops))
		if len(ops) > 24 {
			c.Count("history_too_long")
			continue
		}
		res := porcupine.CheckOperationsTimeout(tmModel, ops, 20*time.Second)
		switch res {
		case porcupine.Illegal:
			var desc []string
			kinds := map[string]bool{}
			sort.Slice(ops, func(i, j int) bool { return ops[i].Call < ops[j].Call })
			for _, op := range ops {
				desc = append(desc, fmt.Sprintf("[%d,%d] %s", op.Call, op.Return, tmModel.DescribeOperation(op.Input, op.Output)))
				i := op.Input.(tmIn)
				o := op.Output.(tmOut)
				kinds[i.kind+"-"+o.res] = true
			}
			c.Violate("timer:"+host+":not-linearizable:"+tmClassify(ops), "history of timer id %q is not linearizable as a timer (make/cancel/fire):\n  %s", id, strings.Join(desc, "\n  "))
		case porcupine.Unknown:
			c.Count("porcupine_unknown")
		default:
			c.Count("histories_linearizable")
		}
	}
	if complete && openOps == 0 {
		for p := range accepted {
			id := idOf[p]
			_ = id
		}
		// exactly once: every accepted timer fired or was cancelled
		for _, id := range ids {
			acc, gone := 0, 0
			for _, op := range byId[id] {
				i := op.Input.(tmIn)
				o := op.Output.(tmOut)
				switch {
				case i.kind == "observe":
				case i.kind == "make" && o.res == "ok":
					acc++
				case i.kind == "cancel" && o.res == "ok", i.kind == "fire":
					gone++
				case i.kind == "cancel" && o.res == "any":
					gone = acc // whatever was pending is gone now
				}
			}
			if acc > gone {
				c.Violate("timer:"+host+":lost", "timer id %q: %d accepted but only %d fired or cancelled by the time every due time had passed", id, acc, gone)
			}
		}
	}
}

// tmClassify names the smallest recognisable illegal pattern, for the
// violation signature.
func tmClassify(ops []porcupine.Operation) string {
	// sequential scan in order of return: report the first operation that is
	// illegal for the state reached by the operations that returned before it
	sorted := append([]porcupine.Operation{}, ops...)
	sort.Slice(sorted, func(i, j int) bool { return sorted[i].Return < sorted[j].Return })
	st := tmModel.Init()
	for _, op := range sorted {
		ok, ns := tmModel.Step(st, op.Input, op.Output)
		if !ok {
			i := op.Input.(tmIn)
			o := op.Output.(tmOut)
			s := st.(tmState)
			state := "none"
			if s.pending {
				state = "pending"
			}
			res := o.res
			if i.kind == "fire" {
				res = "fired"
			}
			return i.kind + "-" + res + "-while-" + state
		}
		st = ns
	}
	return "interleaving"
}

