package main

import (
	"bufio"
	"bytes"
	"encoding/json"
	"fmt"
	"os"
	"os/exec"
	"path/filepath"
	"strings"
	"sync"
	"sync/atomic"
	"time"
)

type Violation struct {
	Prop   string `json:"property"`
	Sig    string `json:"signature"`
	Detail string `json:"detail"`
}

type Job struct {
	Prop     string            `json:"prop"`
	Part     string            `json:"part,omitempty"`
	Tier     string            `json:"tier"`
	Mode     string            `json:"mode"`
	SeedBase uint64            `json:"seed_base"`
	From     int               `json:"from"`
	Count    int               `json:"count"`
	Tape     []uint32          `json:"tape,omitempty"`
	Out      string            `json:"out"`
	Trace    bool              `json:"trace,omitempty"`
	KeepTape bool              `json:"keep_tape,omitempty"`
	RaceLog  string            `json:"race_log,omitempty"`
	Deadline int64             `json:"deadline,omitempty"`
	Params   map[string]string `json:"params,omitempty"`
}

type Result struct {
	Kind    string          `json:"kind"`
	Index   int             `json:"index"`
	Seed    uint64          `json:"seed"`
	Part    string          `json:"part,omitempty"`
	Hash    string          `json:"hash,omitempty"`
	Viol    []Violation     `json:"viol,omitempty"`
	Stats   map[string]int  `json:"stats,omitempty"`
	Path    string          `json:"path,omitempty"`
	Trivial bool            `json:"trivial,omitempty"`
	TapeLen int             `json:"tape_len,omitempty"`
	Tape    []uint32        `json:"tape,omitempty"`
	Decoded []string        `json:"decoded,omitempty"`
	Trace   []string        `json:"trace,omitempty"`
	Steps   int             `json:"steps,omitempty"`
	SimNs   int64           `json:"sim_ns,omitempty"`
	Sample  json.RawMessage `json:"sample,omitempty"`
	Infra   string          `json:"infra,omitempty"`
}

var (
	scratchOnce sync.Once
	scratchDir  string
	jobSeq      int64
)

func scratch() string {
	scratchOnce.Do(func() {
		base := "/dev/shm"
		if st, err := os.Stat(base); err != nil || !st.IsDir() {
			base = os.TempDir()
		}
		d, err := os.MkdirTemp(base, "verif-")
		if err != nil {
			fmt.Fprintln(os.Stderr, "scratch:", err)
			os.Exit(2)
		}
		scratchDir = d
	})
	return scratchDir
}

func cleanupScratch() {
	if scratchDir != "" {
		os.RemoveAll(scratchDir)
	}
}

// runJob executes one executor process; crashes are attributed to the run that
// was in flight and the remaining runs continue in a fresh process.
func runJob(p part, job Job, perRunTimeout time.Duration) ([]Result, error) {
	var all []Result
	for job.Count > 0 {
		id := atomic.AddInt64(&jobSeq, 1)
		dir := filepath.Join(scratch(), fmt.Sprintf("j%d", id))
		os.MkdirAll(dir, 0o755)
		job.Out = filepath.Join(dir, "out.jsonl")
		if p.race {
			job.RaceLog = filepath.Join(dir, "race")
		}
		jf := filepath.Join(dir, "job.json")
		js, _ := json.Marshal(job)
		os.WriteFile(jf, js, 0o644)
		cmd := exec.Command(binPath(p.engine, p.race), "-test.run", "^TestSim$", "-test.timeout", "0", "-test.count", "1")
		cmd.Dir = dir
		cmd.Env = append(os.Environ(), "VERIF_JOB="+jf, "GODEBUG=asynctimerchan=0", "VERIF_SCRATCH="+dir,
			"VERIF_REPO="+repoDir(), "GOTRACEBACK=all")
		if p.race {
			cmd.Env = append(cmd.Env, "GORACE=log_path="+job.RaceLog+" halt_on_error=0 history_size=3")
		}
		var out bytes.Buffer
		cmd.Stdout, cmd.Stderr = &out, &out
		if err := cmd.Start(); err != nil {
			return all, err
		}
		done := make(chan error, 1)
		go func() { done <- cmd.Wait() }()
		timeout := perRunTimeout*time.Duration(job.Count) + 60*time.Second
		var werr error
		timedOut := false
		select {
		case werr = <-done:
		case <-time.After(timeout):
			cmd.Process.Kill()
			werr = <-done
			timedOut = true
		}
		res, inflight, ended := readResults(job.Out)
		all = append(all, res...)
		os.RemoveAll(dir)
		if ended {
			// the exit status is 1 whenever the race monitor reported something; the
			// reports are already attributed to their runs
			_ = werr
			return all, nil
		}
		if inflight == nil {
			if job.Deadline != 0 && time.Now().Unix() > job.Deadline {
				return all, nil
			}
			return all, fmt.Errorf("executor %s/%s died before its first run: %v\n%s", job.Prop, job.Part, werr, tail(out.String(), 4000))
		}
		// crash / hang during run inflight.Index
		if f := os.Getenv("VERIF_DEBUG_CRASH"); f != "" {
			os.WriteFile(f, out.Bytes(), 0o644)
		}
		kind := "crash"
		if timedOut {
			kind = "hang"
		}
		if strings.Contains(out.String(), "VERIF-MEMORY-BUDGET") {
			// the generated program blew up the executor's memory budget (e.g. bindings that
			// nest themselves on every step): the run is skipped and counted, not judged
			all = append(all, Result{Kind: "run", Index: inflight.Index, Seed: inflight.Seed, Part: job.Part, Trivial: true,
				Stats: map[string]int{"skipped_memory_budget": 1}})
		} else {
			all = append(all, Result{Kind: "run", Index: inflight.Index, Seed: inflight.Seed, Part: job.Part,
				Viol: []Violation{{Prop: job.Prop, Sig: kind + ":" + crashSite(out.String()), Detail: tail(out.String(), 6000)}}})
		}
		next := inflight.Index + 1
		job.Count = job.From + job.Count - next
		job.From = next
		if job.Mode == "replay" {
			break
		}
	}
	return all, nil
}

func tail(s string, n int) string {
	if len(s) > n {
		return "..." + s[len(s)-n:]
	}
	return s
}

// crashSite names the innermost sheens function in a crash dump.
func crashSite(out string) string {
	lines := strings.Split(out, "\n")
	start := 0
	for i, ln := range lines {
		if strings.HasPrefix(ln, "panic:") || strings.HasPrefix(ln, "fatal error:") {
			start = i
			break
		}
	}
	kind := "other"
	if start < len(lines) {
		h := lines[start]
		switch {
		case strings.Contains(h, "concurrent map"):
			kind = "concurrent-map"
		case strings.Contains(h, "nil map"):
			kind = "nil-map"
		case strings.Contains(h, "nil pointer"):
			kind = "nil-deref"
		case strings.Contains(h, "all goroutines are asleep"):
			kind = "deadlock"
		case strings.Contains(h, "close of closed channel"):
			kind = "double-close"
		}
	}
	for i := start; i < len(lines); i++ {
		ln := strings.TrimSpace(lines[i])
		if strings.HasPrefix(ln, "github.com/Comcast/sheens/") && i+1 < len(lines) && !strings.Contains(lines[i+1], "zz_verif_") {
			fn := ln
			if j := strings.LastIndex(fn, "("); j > 0 {
				fn = fn[:j]
			}
			return strings.TrimPrefix(fn, "github.com/Comcast/sheens/") + ":" + kind
		}
	}
	return "unknown:" + kind
}

func readResults(path string) (runs []Result, inflight *Result, ended bool) {
	f, err := os.Open(path)
	if err != nil {
		return nil, nil, false
	}
	defer f.Close()
	sc := bufio.NewScanner(f)
	sc.Buffer(make([]byte, 1<<20), 1<<28)
	for sc.Scan() {
		var r Result
		if err := json.Unmarshal(sc.Bytes(), &r); err != nil {
			continue
		}
		switch r.Kind {
		case "start":
			rr := r
			inflight = &rr
		case "run":
			runs = append(runs, r)
			inflight = nil
		case "end":
			ended = true
		}
	}
	return
}

// runBatch runs indices [0,n) of a part on all cores.
func runBatch(prop string, p part, tier string, seedBase uint64, n int, workers int, deadline int64) ([]Result, error) {
	chunk := p.chunk
	if chunk == 0 {
		chunk = (n + workers*4 - 1) / (workers * 4)
		if chunk < 1 {
			chunk = 1
		}
	}
	type span struct{ from, count int }
	var spans []span
	for i := 0; i < n; i += chunk {
		c := chunk
		if i+c > n {
			c = n - i
		}
		spans = append(spans, span{i, c})
	}
	var (
		mu   sync.Mutex
		all  []Result
		ferr error
		wg   sync.WaitGroup
		next int64 = -1
	)
	for w := 0; w < workers; w++ {
		wg.Add(1)
		go func() {
			defer wg.Done()
			for {
				k := int(atomic.AddInt64(&next, 1))
				if k >= len(spans) {
					return
				}
				job := Job{Prop: prop, Part: p.name, Tier: tier, Mode: "search", SeedBase: seedBase,
					From: spans[k].from, Count: spans[k].count, Deadline: deadline}
				res, err := runJob(p, job, 20*time.Second)
				mu.Lock()
				all = append(all, res...)
				if err != nil && ferr == nil {
					ferr = err
				}
				mu.Unlock()
			}
		}()
	}
	wg.Wait()
	return all, ferr
}

// tapeTimeout bounds a single replayed run (plus the executor's start-up allowance).
var tapeTimeout = 30 * time.Second

// runTape replays one tape in a fresh process.
func runTape(prop string, p part, tier string, seedBase uint64, index int, tape []uint32, trace bool) (*Result, error) {
	job := Job{Prop: prop, Part: p.name, Tier: tier, Mode: "replay", SeedBase: seedBase, From: index, Count: 1, Tape: tape, Trace: trace, KeepTape: true}
	if tape == nil {
		job.Mode = "search"
	}
	res, err := runJob(p, job, tapeTimeout)
	if err != nil {
		return nil, err
	}
	if len(res) == 0 {
		return nil, fmt.Errorf("no result")
	}
	return &res[0], nil
}
