package main

import (
	"encoding/json"
	"fmt"
	"os"
	"path/filepath"
	"runtime"
	"sort"
	"strconv"
	"strings"
	"sync"
	"time"
)

const defaultSeed = 20261002

func baseSeed() uint64 {
	if s := os.Getenv("VERIF_SEED"); s != "" {
		if v, err := strconv.ParseUint(s, 10, 64); err == nil {
			return v
		}
		if v, err := strconv.ParseInt(s, 10, 64); err == nil {
			return uint64(v)
		}
	}
	return defaultSeed
}

type finding struct {
	Property  string `json:"property"`
	Signature string `json:"signature"`
	Status    string `json:"status"` // open | fixed
	Commit    string `json:"commit,omitempty"`
	WhatFails string `json:"what_fails"`
	Example   string `json:"example,omitempty"`
}

func loadFindings() []finding {
	raw, err := os.ReadFile(filepath.Join(verifDir, "known_findings.json"))
	if err != nil {
		return nil
	}
	var f struct {
		Findings []finding `json:"findings"`
	}
	if err := json.Unmarshal(raw, &f); err != nil {
		fmt.Fprintln(os.Stderr, "known_findings.json:", err)
		os.Exit(2)
	}
	return f.Findings
}

func known(fs []finding, prop, sig string) *finding {
	for i := range fs {
		if fs[i].Property == prop && fs[i].Signature == sig && fs[i].Status == "open" {
			return &fs[i]
		}
	}
	return nil
}

type replayFile struct {
	Property  string   `json:"property"`
	Part      string   `json:"part"`
	Tier      string   `json:"tier"`
	Signature string   `json:"signature"`
	SeedBase  uint64   `json:"seed_base"`
	Index     int      `json:"index"`
	Seed      uint64   `json:"seed"`
	Tape      []uint32 `json:"tape"`
	Detail    string   `json:"detail"`
	Decoded   []string `json:"decoded,omitempty"`
	Trace     []string `json:"trace,omitempty"`
	OrigTape  int      `json:"original_tape_len"`
	Attempts  int      `json:"minimisation_attempts"`
	// Deterministic is false only for a data-race report that the batch produced but that
	// the tape did not show again in fresh processes (the racing code's own nondeterminism).
	Deterministic bool `json:"replays_deterministically"`
}

func findPart(prop, name string) (part, bool) {
	for _, p := range props[prop].parts {
		if p.name == name {
			return p, true
		}
	}
	return part{}, false
}

func hasSig(r *Result, sig string) *Violation {
	for i := range r.Viol {
		if r.Viol[i].Sig == sig {
			return &r.Viol[i]
		}
	}
	return nil
}

// minimise shrinks a failing tape while the same signature persists.
func minimise(prop string, p part, tier string, seedBase uint64, index int, tape []uint32, sig string, budget int) ([]uint32, int) {
	attempts := 0
	workers := runtime.NumCPU()
	test := func(cands [][]uint32) int { // index of first reproducing candidate, -1
		if len(cands) == 0 {
			return -1
		}
		ok := make([]bool, len(cands))
		var wg sync.WaitGroup
		sem := make(chan struct{}, workers)
		for i := range cands {
			wg.Add(1)
			sem <- struct{}{}
			go func(i int) {
				defer wg.Done()
				defer func() { <-sem }()
				r, err := runTape(prop, p, tier, seedBase, index, cands[i], false)
				if err == nil && hasSig(r, sig) != nil {
					ok[i] = true
				}
			}(i)
		}
		wg.Wait()
		attempts += len(cands)
		for i, v := range ok {
			if v {
				return i
			}
		}
		return -1
	}
	cur := append([]uint32{}, tape...)
	// 1. shortest reproducing prefix (exhausted tape = zeros)
	for attempts < budget && len(cur) > 0 {
		var cands [][]uint32
		for _, l := range []int{0, len(cur) / 8, len(cur) / 4, len(cur) / 2, len(cur) * 3 / 4, len(cur) * 7 / 8, len(cur) - 1} {
			if l >= 0 && l < len(cur) && (len(cands) == 0 || l > len(cands[len(cands)-1])) {
				cands = append(cands, append([]uint32{}, cur[:l]...))
			}
		}
		k := test(cands)
		if k < 0 {
			break
		}
		cur = cands[k]
	}
	// 2. chunk deletion
	for size := len(cur) / 2; size >= 1 && attempts < budget; size /= 2 {
		for i := 0; i+size <= len(cur) && attempts < budget; {
			var cands [][]uint32
			var offs []int
			for j := i; j+size <= len(cur) && len(cands) < workers; j += size {
				c := append([]uint32{}, cur[:j]...)
				c = append(c, cur[j+size:]...)
				cands = append(cands, c)
				offs = append(offs, j)
			}
			k := test(cands)
			if k < 0 {
				i = offs[len(offs)-1] + size
				continue
			}
			cur = cands[k]
			i = offs[k]
		}
	}
	// 3. zero / reduce values
	for i := 0; i < len(cur) && attempts < budget; {
		var cands [][]uint32
		var idxs []int
		for j := i; j < len(cur) && len(cands) < workers; j++ {
			if cur[j] == 0 {
				continue
			}
			c := append([]uint32{}, cur...)
			c[j] = 0
			cands = append(cands, c)
			idxs = append(idxs, j)
		}
		if len(cands) == 0 {
			break
		}
		k := test(cands)
		if k < 0 {
			i = idxs[len(idxs)-1] + 1
			continue
		}
		cur = cands[k]
		i = idxs[k] + 1
	}
	// drop trailing zeros
	for len(cur) > 0 && cur[len(cur)-1] == 0 {
		cur = cur[:len(cur)-1]
	}
	return cur, attempts
}

type partSummary struct {
	Part         string         `json:"part"`
	Engine       string         `json:"engine"`
	RaceMonitor  bool           `json:"race_monitor"`
	Evaluations  int            `json:"evaluations"`
	Distinct     int            `json:"distinct_nontrivial"`
	Stats        map[string]int `json:"counters"`
	Steps        int            `json:"scheduler_steps"`
	SimSeconds   float64        `json:"simulated_seconds"`
	WallS        float64        `json:"wall_s"`
	RunsPerHour  float64        `json:"runs_per_hour"`
	Rechecked    int            `json:"determinism_rechecked"`
	DistinctHash int            `json:"distinct_event_hashes"`
	ZeroCounters []string       `json:"probes_at_zero,omitempty"`
}

func cmdCheck(prop, tier string) int {
	defer cleanupScratch()
	cfg, ok := props[prop]
	if !ok {
		fmt.Fprintf(os.Stderr, "unknown or unclaimed property %s\n", prop)
		return 2
	}
	start := time.Now()
	seedBase := baseSeed()
	info, err := generate()
	if err != nil {
		fmt.Fprintln(os.Stderr, err)
		return 2
	}
	for _, p := range cfg.parts {
		if err := buildEngine(p.engine, p.race); err != nil {
			fmt.Fprintln(os.Stderr, err)
			return 2
		}
	}
	buildS := time.Since(start).Seconds()
	findings := loadFindings()
	workers := runtime.NumCPU()
	var (
		sums      []partSummary
		samples   []json.RawMessage
		totalEval int
		totalDist int
		nviol     int
		knownSeen = map[string]bool{}
		infra     []string
		simTotal  float64
	)
	type vkey struct{ part, sig string }
	best := map[vkey]*Result{}
	seenIn := map[vkey]int{} // number of runs of the batch that showed the signature
	for _, p := range cfg.parts {
		n := p.quick
		if tier == "thorough" {
			n = p.thorough
		}
		if v := os.Getenv("VERIF_RUNS"); v != "" {
			if x, err := strconv.Atoi(v); err == nil {
				n = x
			}
		}
		t0 := time.Now()
		var deadline int64
		if tier == "quick" {
			deadline = time.Now().Add(150 * time.Second).Unix()
		} else {
			deadline = time.Now().Add(40 * time.Minute).Unix()
		}
		res, err := runBatch(prop, p, tier, seedBase, n, workers, deadline)
		if err != nil {
			fmt.Fprintln(os.Stderr, err)
			return 2
		}
		sum := partSummary{Part: p.name, Engine: p.engine, RaceMonitor: p.race, Stats: map[string]int{}}
		paths := map[string]bool{}
		hashes := map[string]bool{}
		sort.Slice(res, func(i, j int) bool { return res[i].Index < res[j].Index })
		for i := range res {
			r := &res[i]
			sum.Evaluations++
			if !r.Trivial && r.Path != "" {
				paths[r.Path] = true
			}
			hashes[r.Hash] = true
			for k, v := range r.Stats {
				sum.Stats[k] += v
			}
			sum.Steps += r.Steps
			sum.SimSeconds += float64(r.SimNs) / 1e9
			if r.Infra != "" {
				infra = append(infra, fmt.Sprintf("%s/%s run %d: %s", prop, p.name, r.Index, r.Infra))
			}
			if len(samples) < 3 && r.Sample != nil && !r.Trivial && len(r.Sample) < 20000 {
				samples = append(samples, r.Sample)
			}
			for _, v := range r.Viol {
				k := vkey{p.name, v.Sig}
				seenIn[k]++
				if b, ok := best[k]; !ok || r.TapeLen < b.TapeLen {
					best[k] = r
				}
			}
		}
		sum.Distinct = len(paths)
		sum.DistinctHash = len(hashes)
		// determinism: re-execute a sample of runs in fresh processes and compare event hashes
		recheck := len(res) / 50
		if recheck < 4 {
			recheck = 4
		}
		if recheck > 40 {
			recheck = 40
		}
		if recheck > len(res) {
			recheck = len(res)
		}
		var wg sync.WaitGroup
		var mu sync.Mutex
		for k := 0; k < recheck; k++ {
			r := res[(k*7919)%len(res)]
			if len(r.Viol) > 0 && strings.HasPrefix(r.Viol[0].Sig, "crash") || strings.HasPrefix(r.Hash, "") && r.Hash == "" {
				continue
			}
			wg.Add(1)
			go func(r Result) {
				defer wg.Done()
				again, err := runTape(prop, p, tier, seedBase, r.Index, nil, false)
				mu.Lock()
				defer mu.Unlock()
				if err != nil {
					infra = append(infra, fmt.Sprintf("recheck %s/%s run %d: %v", prop, p.name, r.Index, err))
					return
				}
				sum.Rechecked++
				if again.Hash != r.Hash || again.TapeLen != r.TapeLen {
					infra = append(infra, fmt.Sprintf("NONDETERMINISM %s/%s run %d: hash %s/%d vs %s/%d", prop, p.name, r.Index, r.Hash, r.TapeLen, again.Hash, again.TapeLen))
				}
			}(r)
		}
		wg.Wait()
		sum.WallS = time.Since(t0).Seconds()
		if sum.WallS > 0 {
			sum.RunsPerHour = float64(sum.Evaluations) / sum.WallS * 3600
		}
		for k, v := range sum.Stats {
			if v == 0 {
				sum.ZeroCounters = append(sum.ZeroCounters, k)
			}
		}
		sort.Strings(sum.ZeroCounters)
		totalEval += sum.Evaluations
		totalDist += sum.Distinct
		simTotal += sum.SimSeconds
		sums = append(sums, sum)
	}

	// classify, minimise, replay
	var keys []vkey
	for k := range best {
		keys = append(keys, k)
	}
	sort.Slice(keys, func(i, j int) bool {
		if keys[i].part != keys[j].part {
			return keys[i].part < keys[j].part
		}
		return keys[i].sig < keys[j].sig
	})
	rc := 0
	var lines []string
	reported := 0
	for _, k := range keys {
		if f := known(findings, prop, k.sig); f != nil {
			if !knownSeen[k.sig] {
				knownSeen[k.sig] = true
				lines = append(lines, fmt.Sprintf("KNOWN-FINDING: property=%s %s (%s)", prop, f.WhatFails, k.sig))
			}
			continue
		}
		nviol++
		if reported >= 6 {
			continue
		}
		reported++
		p, _ := findPart(prop, k.part)
		r := best[k]
		budget := 120
		if tier == "thorough" {
			budget = 400
		}
		tape, attempts := r.Tape, 0
		if !strings.HasPrefix(k.sig, "hang:") {
			tape, attempts = minimise(prop, p, tier, seedBase, r.Index, r.Tape, k.sig, budget)
		}
		final, err := runTape(prop, p, tier, seedBase, r.Index, tape, true)
		deterministic := true
		if err != nil || hasSig(final, k.sig) == nil {
			// fall back to the unminimised tape
			tape = r.Tape
			// whether a violation shows again can depend on nondeterminism the code under test
			// brought in itself and no seam covers (a goroutine in a file that is not
			// instrumented, the collector); try a few fresh processes
			tries := 4
			ok := false
			for a := 0; a < tries && !ok; a++ {
				final, err = runTape(prop, p, tier, seedBase, r.Index, r.Tape, true)
				ok = err == nil && hasSig(final, k.sig) != nil
			}
			if !ok {
				if hasSig(r, k.sig) != nil && (strings.HasPrefix(k.sig, "race:") || seenIn[k] >= 2) {
					// a data race reported during the batch, or an oracle violation that at least
					// two independent runs of the batch showed, is an observed execution of the real
					// code and is kept as a violation even though this tape does not show it again
					// (recorded in the replay file).  Never needed on the unchanged tree, which the
					// self-test shows to be deterministic under the simulator.
					deterministic = false
					final = r
				} else {
					infra = append(infra, fmt.Sprintf("violation %s/%s %q at run %d did not reproduce from its tape", prop, k.part, k.sig, r.Index))
					continue
				}
			}
		}
		v := hasSig(final, k.sig)
		rf := replayFile{Property: prop, Part: k.part, Tier: tier, Signature: k.sig, SeedBase: seedBase, Index: r.Index, Seed: r.Seed,
			Tape: tape, Detail: v.Detail, Decoded: final.Decoded, Trace: final.Trace, OrigTape: len(r.Tape), Attempts: attempts, Deterministic: deterministic}
		os.MkdirAll(filepath.Join(verifDir, "replays"), 0o755)
		name := fmt.Sprintf("%s-%s-%d.json", prop, sanitize(k.sig), r.Index)
		path := filepath.Join(verifDir, "replays", name)
		js, _ := json.MarshalIndent(rf, "", " ")
		os.WriteFile(path, js, 0o644)
		lines = append(lines, fmt.Sprintf("VIOLATION property=%s replay=%s", prop, path))
		lines = append(lines, "  signature: "+k.sig)
		lines = append(lines, "  "+strings.ReplaceAll(firstLines(v.Detail, 12), "\n", "\n  "))
		rc = 1
	}
	if os.Getenv("VERIF_LIST_SIGS") != "" {
		for _, k := range keys {
			lines = append(lines, fmt.Sprintf("SIG %s %s (run %d; in %d runs)", k.part, k.sig, best[k].Index, seenIn[k]))
		}
	}
	if nviol > reported {
		lines = append(lines, fmt.Sprintf("(%d further distinct violation signatures not minimised)", nviol-reported))
	}

	// evidence
	cov := map[string]interface{}{
		"evaluations":         totalEval,
		"distinct_nontrivial": totalDist,
		"rule":                cfg.rule,
		"samples":             samples,
		"parts":               sums,
		"simulated_seconds":   simTotal,
		"instrumented_sites":  info.Sites,
		"components":          cfg.comps,
		"build_s":             buildS,
		"known_findings_seen": keysOf(knownSeen),
		"repo":                repoDir(),
	}
	if len(samples) == 0 {
		cov["samples"] = []string{"(no sample recorded)"}
	}
	ev := map[string]interface{}{
		"property_id": prop,
		"tier":        tier,
		"seed":        int64(seedBase & 0x7fffffffffffffff),
		"level":       cfg.level,
		"coverage":    cov,
		"assumptions": append([]string{"GODEBUG=asynctimerchan=0 (Go 1.23 timer channels; sheens never Resets or drains a timer)", "executors built with go1.26.8 from instrumented copies of the working tree (see DESIGN.md 2.1)"}, cfg.assum...),
		"wall_s":      time.Since(start).Seconds(),
		"violations":  nviol,
	}
	if os.Getenv("VERIF_KEEP_EVIDENCE") == "" {
		os.MkdirAll(filepath.Join(verifDir, "evidence"), 0o755)
		js, _ := json.MarshalIndent(ev, "", " ")
		if err := os.WriteFile(filepath.Join(verifDir, "evidence", prop+".json"), js, 0o644); err != nil {
			fmt.Fprintln(os.Stderr, err)
			return 2
		}
	}
	for _, s := range sums {
		fmt.Printf("%s/%s: %d runs, %d distinct non-trivial, %d scheduler steps, %.1f simulated s, %.1f s wall, rechecked %d\n",
			prop, s.Part, s.Evaluations, s.Distinct, s.Steps, s.SimSeconds, s.WallS, s.Rechecked)
		var cs []string
		for k, v := range s.Stats {
			cs = append(cs, fmt.Sprintf("%s=%d", k, v))
		}
		sort.Strings(cs)
		fmt.Printf("  counters: %s\n", strings.Join(cs, " "))
		if len(s.ZeroCounters) > 0 {
			fmt.Printf("  WARNING probes at zero: %s\n", strings.Join(s.ZeroCounters, " "))
		}
	}
	for _, l := range lines {
		fmt.Println(l)
	}
	if len(infra) > 0 {
		for _, l := range infra {
			fmt.Fprintln(os.Stderr, "INFRA:", l)
		}
		if rc == 0 {
			return 2
		}
	}
	if rc == 0 {
		fmt.Printf("OK property=%s tier=%s evaluations=%d\n", prop, tier, totalEval)
	}
	return rc
}

func keysOf(m map[string]bool) []string {
	out := []string{}
	for k := range m {
		out = append(out, k)
	}
	sort.Strings(out)
	return out
}

func sanitize(s string) string {
	var b strings.Builder
	for _, r := range s {
		switch {
		case r >= 'a' && r <= 'z', r >= 'A' && r <= 'Z', r >= '0' && r <= '9', r == '-', r == '_', r == '.':
			b.WriteRune(r)
		default:
			b.WriteByte('_')
		}
	}
	out := b.String()
	if len(out) > 80 {
		out = out[:80]
	}
	return out
}

func firstLines(s string, n int) string {
	ls := strings.Split(s, "\n")
	if len(ls) > n {
		ls = ls[:n]
	}
	return strings.Join(ls, "\n")
}

func cmdReplay(path string) int {
	defer cleanupScratch()
	raw, err := os.ReadFile(path)
	if err != nil {
		fmt.Fprintln(os.Stderr, err)
		return 2
	}
	var rf replayFile
	if err := json.Unmarshal(raw, &rf); err != nil {
		fmt.Fprintln(os.Stderr, err)
		return 2
	}
	p, ok := findPart(rf.Property, rf.Part)
	if !ok {
		fmt.Fprintf(os.Stderr, "unknown part %s/%s\n", rf.Property, rf.Part)
		return 2
	}
	if err := buildEngine(p.engine, p.race); err != nil {
		fmt.Fprintln(os.Stderr, err)
		return 2
	}
	r, err := runTape(rf.Property, p, rf.Tier, rf.SeedBase, rf.Index, rf.Tape, true)
	if err != nil {
		fmt.Fprintln(os.Stderr, err)
		return 2
	}
	for _, l := range r.Trace {
		fmt.Println(l)
	}
	if v := hasSig(r, rf.Signature); v != nil {
		fmt.Printf("VIOLATION property=%s replay=%s\n  signature: %s\n  %s\n", rf.Property, path, rf.Signature, strings.ReplaceAll(firstLines(v.Detail, 30), "\n", "\n  "))
		return 1
	}
	fmt.Printf("replay did not reproduce %q (violations now: %d)\n", rf.Signature, len(r.Viol))
	for _, v := range r.Viol {
		fmt.Println("  other:", v.Sig)
	}
	return 2
}

func cmdRunOne(prop, partName string, idx int) int {
	defer cleanupScratch()
	p, ok := findPart(prop, partName)
	if !ok {
		fmt.Fprintf(os.Stderr, "unknown part %s/%s\n", prop, partName)
		return 2
	}
	if err := buildEngine(p.engine, p.race); err != nil {
		fmt.Fprintln(os.Stderr, err)
		return 2
	}
	tier := os.Getenv("VERIF_TIER")
	if tier == "" {
		tier = "quick"
	}
	job := Job{Prop: prop, Part: p.name, Tier: tier, Mode: "search", SeedBase: baseSeed(), From: idx, Count: 1, Trace: true}
	res, err := runJob(p, job, 120*time.Second)
	if err != nil {
		fmt.Fprintln(os.Stderr, err)
		return 2
	}
	for _, r := range res {
		for _, l := range r.Trace {
			fmt.Println(l)
		}
		if os.Getenv("VERIF_TRACE_DRAWS") != "" {
			for i, d := range r.Decoded {
				fmt.Printf("draw %d %s\n", i, d)
			}
		}
		fmt.Printf("hash=%s tape=%d steps=%d path=%s trivial=%v stats=%v\n", r.Hash, r.TapeLen, r.Steps, r.Path, r.Trivial, r.Stats)
		if r.Sample != nil {
			fmt.Printf("sample: %s\n", string(r.Sample))
		}
		for _, v := range r.Viol {
			fmt.Printf("VIOL %s\n%s\n", v.Sig, v.Detail)
		}
		if r.Infra != "" {
			fmt.Println("INFRA:", r.Infra)
		}
	}
	return 0
}

// cmdSelftest: every part, n seeds, each in three processes with GOMAXPROCS
// 1/4/16; event hashes and tape lengths must agree.
func cmdSelftest(n int) int {
	defer cleanupScratch()
	if _, err := generate(); err != nil {
		fmt.Fprintln(os.Stderr, err)
		return 2
	}
	rc := 0
	for _, prop := range propOrder {
		cfg, ok := props[prop]
		if !ok {
			continue
		}
		for _, p := range cfg.parts {
			if err := buildEngine(p.engine, p.race); err != nil {
				fmt.Fprintln(os.Stderr, err)
				return 2
			}
			var ref []Result
			bad := 0
			for _, procs := range []string{"1", "4", "16"} {
				os.Setenv("GOMAXPROCS", procs)
				res, err := runBatch(prop, p, "quick", baseSeed(), n, 8, 0)
				if err != nil {
					fmt.Fprintln(os.Stderr, err)
					return 2
				}
				sort.Slice(res, func(i, j int) bool { return res[i].Index < res[j].Index })
				if ref == nil {
					ref = res
					continue
				}
				for i := range res {
					if i < len(ref) && (res[i].Hash != ref[i].Hash || res[i].TapeLen != ref[i].TapeLen) {
						bad++
						fmt.Printf("NONDETERMINISM %s/%s run %d GOMAXPROCS=%s: %s/%d vs %s/%d\n", prop, p.name, res[i].Index, procs, res[i].Hash, res[i].TapeLen, ref[i].Hash, ref[i].TapeLen)
					}
				}
			}
			os.Unsetenv("GOMAXPROCS")
			fmt.Printf("selftest %s/%s: %d seeds x 3 processes, %d mismatches\n", prop, p.name, n, bad)
			if bad > 0 {
				rc = 2
			}
		}
	}
	return rc
}
