// verifctl drives the /verif checks: it regenerates the simulator seams from
// /repo's working tree, builds the executors, runs batches of seeded simulated
// runs on all cores, classifies and minimises violations, writes replay files
// and evidence.  Exit status: 0 held, 1 violation (VIOLATION line printed),
// 2 infrastructure trouble (build, instrumentation, nondeterminism, watchdog).
package main

import (
	"fmt"
	"os"
	"strconv"
)

func usage() {
	fmt.Fprintln(os.Stderr, `usage:
  verifctl check <property> [--tier quick|thorough]
  verifctl replay <file>
  verifctl prebuild
  verifctl selftest [--seeds N]
  verifctl run <property> <part> <index>     (one run with trace, for debugging)`)
	os.Exit(2)
}

func main() {
	if len(os.Args) < 2 {
		usage()
	}
	switch os.Args[1] {
	case "check":
		if len(os.Args) < 3 {
			usage()
		}
		tier := os.Getenv("VERIF_TIER")
		for i := 3; i < len(os.Args); i++ {
			if os.Args[i] == "--tier" && i+1 < len(os.Args) {
				tier = os.Args[i+1]
			}
		}
		if tier == "" {
			tier = "quick"
		}
		os.Exit(cmdCheck(os.Args[2], tier))
	case "replay":
		if len(os.Args) < 3 {
			usage()
		}
		os.Exit(cmdReplay(os.Args[2]))
	case "prebuild":
		os.Exit(cmdPrebuild())
	case "selftest":
		n := 30
		for i := 2; i < len(os.Args); i++ {
			if os.Args[i] == "--seeds" && i+1 < len(os.Args) {
				n, _ = strconv.Atoi(os.Args[i+1])
			}
		}
		os.Exit(cmdSelftest(n))
	case "run":
		if len(os.Args) < 5 {
			usage()
		}
		idx, _ := strconv.Atoi(os.Args[4])
		os.Exit(cmdRunOne(os.Args[2], os.Args[3], idx))
	default:
		usage()
	}
}
