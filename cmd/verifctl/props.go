package main

// part is one runner of a property: which executor, with or without the race
// monitor, and how many simulated runs each tier performs.
type part struct {
	name     string
	engine   string
	race     bool
	quick    int
	thorough int
	chunk    int // runs per executor process (0 = auto)
}

type propCfg struct {
	level string // exploration | fault_enumeration
	rule  string // how cases are generated and what makes one distinct and non-trivial
	parts []part
	comps []string // components: real vs stub, for evidence
	assum []string
}

var propOrder = []string{"C03", "C04", "C05", "C06", "C07", "C08", "C09", "C10", "C11", "C12", "C14", "C15", "C16", "C17", "C18", "C19"}

var props = map[string]propCfg{
	"C04": {
		level: "exploration",
		rule: "each run: one tape-generated specification (2-5 nodes, ordered branches over a small pattern/message vocabulary, guards, ECMAScript and native actions from the deterministic action language with injected failures, @var targets, every error-routing mode) and 4-11 (state, pending message) trials; every Spec.Step result is compared with the reference machine; distinct = distinct sequences of (reference rule, moved, consumed, #emitted); non-trivial = at least one trial moved the machine or was a documented error",
		parts: []part{
			{name: "", engine: "core", race: false, quick: 6000, thorough: 400000},
		},
		comps: []string{"real: core.Spec.Compile/Step, match.Match, interpreters/ecmascript (goja) - instrumented copies with the map-order seam", "reference: /verif/ref machine + mini-matcher (written from README 'Processing', doc/by-example.md, Spec field docs)", "injected: action/guard failures (throw, bad return, unserialisable emit), map iteration orders"},
	},
	"C17": {
		level: "exploration",
		rule: "each run: a tape-generated plan of make/cancel/sleep requests over <=3 timer ids issued by 1-3 requester tasks plus handler-issued requests, executed on the real timers code under the serial scheduler with the simulated clock; distinct = distinct (operation history, schedule) event hashes; non-trivial = at least one timer fired or was cancelled and at least two tasks interleaved",
		parts: []part{
			{name: "mcrew-timers", engine: "mcrew", race: true, quick: 1500, thorough: 60000},
		},
		comps: []string{"real: cmd/mcrew/timers.go (instrumented copy)", "simulated: clock (testing/synctest), goroutine scheduling (serial scheduler), map order", "stub: emitter (harness records firings and issues handler requests)"},
	},
}
