package main

// part is one runner of a property: which executor, with or without the race
// monitor, and how many simulated runs each tier performs.
type part struct {
	name     string
	engine   string
	race     bool
	quick    int
	thorough int
	chunk    int // runs per executor process (0 = auto)
}

type propCfg struct {
	level string // exploration | fault_enumeration
	rule  string // how cases are generated and what makes one distinct and non-trivial
	parts []part
	comps []string // components: real vs stub, for evidence
	assum []string
}

var propOrder = []string{"C03", "C04", "C05", "C06", "C07", "C08", "C09", "C10", "C11", "C12", "C14", "C15", "C16", "C17", "C18", "C19"}

var props = map[string]propCfg{
	"C19": {
		level: "exploration",
		rule:  "each run: a session of 1-3 steps, each with 1-3 expected outputs (constant and variable patterns, guards that accept, reject, or test the bound value) and optionally an inverted output, step timeouts 300 ms / 1 s / default 2 s; the simulated child answers each input with the ideal lines for that step after one stream fault (none, duplicate, drop, duplicate-in-place-of-dropped, reorder, delayed past the timeout, noise and unrelated JSON, forbidden line before the last required one, value rejected by the guard, guard rejecting everything, a later step asking for an earlier step's pattern with a guard that accepts nothing); Session.Run runs for real on the simulated clock under the serial scheduler; distinct = distinct (outputs, fault) shapes x verdict",
		parts: []part{{name: "", engine: "expect", race: false, quick: 10000, thorough: 100000}},
		comps: []string{"real: tools/expect Session.Run (reader, writer and timer goroutines, matching, guard compilation and execution) - instrumented copy with exec.Command replaced by simexec.Command", "stub: the child process (scripted goroutine over io.Pipes)", "simulated: clock, goroutine scheduling, the child's output stream and its faults"},
		assum: []string{"the oracle asserts necessary conditions for a pass (strict direction) and that a never-arriving expected message ends in an error rather than a hang; it does not assert that the tool passes whenever it could"},
	},
	"C03": {
		level: "exploration",
		rule:  "order: one (pattern, message, bindings) triple per run from a grammar biased to order-sensitive shapes (one variable at several keys with structured values that partially match each other, property variables with siblings nested beside a merely failing key, arrays with one variable among structured and scalar members, optional and inequality variables, pre-bound variables); every map iteration inside match.go is permuted independently - all combinations enumerated depth-first up to 96 per triple, 12 tape-sampled ones beyond; arguments snapshotted (canonical JSON + container identity), results mutated; concurrent: 2-6 tasks x 1-3 calls on the same objects under the serial scheduler with the race monitor; distinct = distinct triples (x schedule hash); non-trivial = at least two iteration orders / at least one scheduling choice",
		parts: []part{
			{name: "order", engine: "core", race: false, quick: 40000, thorough: 600000},
			{name: "concurrent", engine: "core", race: true, quick: 4000, thorough: 60000},
		},
		comps: []string{"real: match.Match (instrumented copy: every map range goes through the map-order seam)", "simulated: map iteration order, goroutine scheduling; race detector as happens-before monitor"},
	},
	"C04": {
		level: "exploration",
		rule:  "each run: one tape-generated specification (2-5 nodes, ordered branches over a small pattern/message vocabulary, guards, ECMAScript and native actions from the deterministic action language with injected failures, @var targets, every error-routing mode) and 4-11 (state, pending message) trials; every Spec.Step result is compared with the reference machine; distinct = distinct sequences of (reference rule, moved, consumed, #emitted); non-trivial = at least one trial moved the machine or was a documented error",
		parts: []part{
			{name: "", engine: "core", race: false, quick: 30000, thorough: 400000},
		},
		comps: []string{"real: core.Spec.Compile/Step, match.Match, interpreters/ecmascript (goja) - instrumented copies with the map-order seam", "reference: /verif/ref machine + mini-matcher (written from README 'Processing', doc/by-example.md, Spec field docs)", "injected: action/guard failures (throw, bad return, unserialisable emit), map iteration orders"},
	},
	"C05": {
		level: "exploration",
		rule:  "each run: one generated specification, start state and history of 1-8 unique messages; a simulated host delivers it in tape-chosen consecutive batches with step limits 0-40 and breakpoint predicates, resuming from the returned state with exactly Remaining; then the same history all at once; unencodable: plain automata (2-4 message and pass-through nodes, constant patterns, no actions) and histories of 1-8 messages most of which carry a member JSON cannot encode (NaN, infinity, function, channel, nested NaN), delivered in batches with limits 0-40: order and count of consumed messages, the remainder, the step bound, and the end node computed by the harness; distinct = distinct (batch size, limit, breakpoint, stop reason) sequences; non-trivial = at least two Walk calls",
		parts: []part{{name: "", engine: "core", quick: 30000, thorough: 400000}, {name: "unencodable", engine: "core", quick: 20000, thorough: 300000}},
		comps: []string{"real: core.Spec.Compile/Step/Walk, match.Match, interpreters/ecmascript (goja) - instrumented copies with the map-order seam", "reference: /verif/ref machine + mini-matcher (written from the documentation); for the part 'unencodable' a finite automaton computed in the harness", "injected: action/guard failures (throw, bad return, unserialisable emit, null, stub interpreter results), map iteration orders, messages that JSON cannot carry (NaN, infinity, function and channel members)"},
	},
	"C06": {
		level: "exploration",
		rule:  "each run: one generated specification, a shared list of message objects and 1-3 states (fan-out); per state a Step or Walk call, deep snapshots of state/messages/control/props/branch patterns before and after, aliasing of returned bindings, then the identical call again (retry); distinct = distinct specification + outcome shapes",
		parts: []part{{name: "", engine: "core", quick: 30000, thorough: 400000}},
		comps: []string{"real: core.Spec.Compile/Step/Walk, match.Match, interpreters/ecmascript (goja) - instrumented copies with the map-order seam", "reference: /verif/ref machine + mini-matcher (written from the documentation)", "injected: action/guard failures (throw, bad return, unserialisable emit, null, stub interpreter results), map iteration orders"},
	},
	"C07": {
		level: "fault_enumeration",
		rule:  "process: per generated program the product {every node, unknown node, error node} x {nil, '!'-carrying, generated bindings} x {no, map, scalar message} x {nil, given control} x {Step, Walk} is enumerated under a panic trap, action/guard failure kinds are part of the program; load: a generated document gets one of 19 structural faults and is loaded through encoding/json, yaml.v2 and jsccast/yaml, compiled, and walked; distinct = distinct programs / (fault, outcome) pairs",
		parts: []part{{name: "process", engine: "core", quick: 3000, thorough: 60000}, {name: "load", engine: "core", quick: 15000, thorough: 200000}},
		comps: []string{"real: core.Spec.Compile/Step/Walk, match.Match, interpreters/ecmascript (goja) - instrumented copies with the map-order seam", "reference: /verif/ref machine + mini-matcher (written from the documentation)", "injected: action/guard failures (throw, bad return, unserialisable emit, null, stub interpreter results), map iteration orders"},
	},
	"C08": {
		level: "fault_enumeration",
		rule:  "per run: (A) a generated program and history checked stride by stride against the reference's completed executions; (B) for an action with n<=4 emits, failure after the k-th emit for every k in [0,n] x {throw, bad return, unserialisable emit}, as first or second action of a three-message walk, under a tape-chosen error-routing mode, with or without an emitting guard; (C) failure by timeout: a script of n<=4 emissions separated by tick() calls, the deadline placed inside the tick after the k-th emission for every k in [0,n] on the simulated clock, via Exec/Step/Walk under a tape-chosen error-routing mode; sio: the same through a crew's Result.Emitted; distinct = distinct (program, n, mode, position)",
		parts: []part{{name: "core", engine: "core", quick: 8000, thorough: 150000}, {name: "sio", engine: "sio", quick: 6000, thorough: 100000}, {name: "timeout", engine: "core", quick: 2000, thorough: 30000}},
		comps: []string{"real: core.Spec.Compile/Step/Walk, match.Match, interpreters/ecmascript (goja) - instrumented copies with the map-order seam", "reference: /verif/ref machine + mini-matcher (written from the documentation)", "injected: action/guard failures (throw, bad return, unserialisable emit, null, stub interpreter results), map iteration orders"},
	},
	"C09": {
		level: "fault_enumeration",
		rule:  "per run: a generated program whose later patterns inspect values produced by earlier actions, a history of 1-6 messages; twin A keeps the state in memory, twin B writes it as JSON and reads it back before message i, for every i (enumerated) and for one tape-chosen subset; per message (node, bindings, emitted) must agree; distinct = distinct (program, nodes visited)",
		parts: []part{{name: "", engine: "core", quick: 16000, thorough: 300000}},
		comps: []string{"real: core.Spec.Compile/Step/Walk, match.Match, interpreters/ecmascript (goja) - instrumented copies with the map-order seam", "reference: /verif/ref machine + mini-matcher (written from the documentation)", "injected: action/guard failures (throw, bad return, unserialisable emit, null, stub interpreter results), map iteration orders"},
	},
	"C18": {
		level: "exploration",
		rule:  "each run: a generated program (native, ECMAScript and stub actions; guards that reject or fail), a start state carrying permanent bindings, a history of 1-6 messages; on every stride that moved, each '!' binding of From must be in To with an equal value; distinct = distinct stride-outcome sequences; non-trivial = at least one stride checked",
		parts: []part{{name: "", engine: "core", quick: 30000, thorough: 400000}},
		comps: []string{"real: core.Spec.Compile/Step/Walk, match.Match, interpreters/ecmascript (goja) - instrumented copies with the map-order seam", "reference: /verif/ref machine + mini-matcher (written from the documentation)", "injected: action/guard failures (throw, bad return, unserialisable emit, null, stub interpreter results), map iteration orders"},
	},
	"C10": {
		level: "exploration",
		rule:  "each run: one probe program and 1-3 polluter programs (random subsets of 16 attacks on bindings, globals, prototypes, built-ins, environment members, step properties), a plan of 2-7 executions ending in a probe, with or without precompiled programs; sequence: executed in order; concurrent: every execution is a task, interleaved at tick() yields under the serial scheduler, race monitor on; distinct = distinct (plan, attack sets, schedule hash)",
		parts: []part{
			{name: "sequence", engine: "core", race: false, quick: 12000, thorough: 200000},
			{name: "concurrent", engine: "core", race: true, quick: 2000, thorough: 40000},
		},
		comps: []string{"real: interpreters/ecmascript.Interpreter Compile/Exec on goja (instrumented copy: yields around the watcher goroutine)", "simulated: goroutine scheduling, script progress via the tick seam; race detector as happens-before monitor", "expected probe observations are constants of a clean runtime, not a baseline taken from the (possibly polluted) process"},
	},
	"C11": {
		level: "exploration",
		rule:  "each run: 1-8 executions (7 script shapes: loops, recursion, array and property churn, a terminating script, emit-then-loop) via Interpreter.Exec, Spec.Step or Spec.Walk under each error-routing mode, deadlines from already expired to 300 simulated ms or cancel() issued inside tick N<=12, tick lengths 1/3/7 simulated ms, all as tasks under the serial scheduler with the simulated clock; distinct = distinct (execution plans, schedule hash)",
		parts: []part{{name: "", engine: "core", race: true, quick: 3000, thorough: 60000}},
		comps: []string{"real: interpreters/ecmascript (goja runtime, watcher goroutine, context handling), core.Step/Walk error routing", "simulated: clock (testing/synctest), script progress (tick seam: a host function that sleeps simulated time and yields), goroutine scheduling"},
		assum: []string{"CPU time of interpreted code is modelled by explicit tick() calls; a script that never calls tick() cannot consume simulated time and is not generated"},
	},
	"C12": {
		level: "exploration",
		rule:  "shared: one generated compiled spec (a quarter name their automatic error node differently: Spec.ErrorNode), 2-6 walker tasks with their own states and 1-3 messages, results compared with the same walks done alone; in half of the runs one walker's context is cancelled (after a drawn number of scheduling points, or by the simulator exactly when that walker is about to run a script for the n-th time) and it goes on through a backlog of up to 9 more messages with its dead context - only its own results are excused; in half of the runs the scheduler weighs the tasks unequally (1, 4 or 16, redrawn now and then) instead of equally; swap: an UpdatableSpec holding version A or B (every action tags its emissions), 2-5 walkers x 1-4 calls and a swapper task issuing 1-6 swaps, each call must equal that call under A alone or under B alone; serial scheduler with yields at Step/Walk/consider/try/Exec entries, race monitor on; distinct = distinct schedule hashes; non-trivial = at least one scheduling choice",
		parts: []part{
			{name: "shared", engine: "core", race: true, quick: 3000, thorough: 40000},
			{name: "swap", engine: "core", race: true, quick: 2000, thorough: 40000},
		},
		comps: []string{"real: core.Spec.Walk/Step, core.UpdatableSpec, match, ecmascript interpreter - instrumented copies", "simulated: goroutine scheduling; race detector as happens-before monitor"},
	},
	"C14": {
		level: "exploration",
		rule:  "mcrew: 1-4 recorder machines, 1-2 client tasks x 1-3 messages (targets absent, id, unknown id, timers, http, ws; nested emission instructions, timers that deliver messages later), counting oracle over the recorders' logs at quiescence and over the Emitted channel; sio: a crew of 1-5 recorder machines, 1-4 submitted messages with unique ids, routing targets (absent, id, '*', unknown, service names, lists with unknown, repeated, non-string and service members) and nested emission instructions (hop budget 2); the order in which machines are presented a message comes from the map-order seam; counting oracle over the recorders' logs and Result.Emitted; sio-loop: the same through the crew's own Loop with a pipelined submitter and a consumer task, a recipient whose state cannot be encoded in a quarter of the messages, or (half of the crews) a machine without state that emits and never changes - then the batches in the results handed to the couplings must equal the model's; distinct = distinct (crew size, processed/batch counts) shapes",
		parts: []part{{name: "sio", engine: "sio", race: false, quick: 10000, thorough: 150000}, {name: "sio-loop", engine: "sio", race: true, quick: 600, thorough: 15000}, {name: "captain-list", engine: "sio", race: false, quick: 3000, thorough: 40000}, {name: "mcrew", engine: "mcrew", race: true, quick: 800, thorough: 15000}},
		comps: []string{"real: sio.Crew ProcessMsg/RunMachines/toMachines, core.Walk, ecmascript interpreter (instrumented copies)", "real: cmd/mcrew Service.Process/Route/toTimers/Timers on a real bbolt store (tmpfs) with recorder machines loaded from a spec file; client tasks and the service's asynchronous re-processing goroutines under the serial scheduler with the simulated clock", "reference: router models (documented routing rules) in the harnesses", "simulated: order in which machines are presented a message (map-order seam), goroutine scheduling, clock", "not simulated: real HTTP egress, WebSocket peers (messages to 'http'/'ws' are only checked to reach no machine)"},
	},
	"C15": {
		level: "fault_enumeration",
		rule:  "each run: a history of 2-8 operations over <=3 machine ids - captain create (two spec versions, with or without state), replace state, replace spec, delete, re-create, interleaved with routed/unrouted messages that move the recorder machines; after every ProcessMsg the fold of Result.Changed is compared with the live crew (node, bindings, spec source modulo compilation, deleted machines absent); then for every message boundary a twin crew is booted from the JSON of the shadow store and must produce equal states and emission batches for the rest of the history; distinct = distinct operation-kind sequences",
		parts: []part{{name: "", engine: "sio", race: false, quick: 6000, thorough: 100000}, {name: "sio-loop", engine: "sio", race: true, quick: 800, thorough: 20000}, {name: "unencodable", engine: "sio", race: false, quick: 3000, thorough: 50000}},
		comps: []string{"real: sio.Crew (ProcessMsg, captain machine, SetMachine/DeleteMachine, GetChanged), core.Walk, ecmascript interpreter", "reference: shadow store folded exactly as sio/stdio.go folds Result.Changed; boot path as sio/siostd/main.go", "injected: crash/restart at every message boundary (JSON round trip of the store), order of machines (map-order seam)"},
	},
	"C16": {
		level: "fault_enumeration",
		rule:  "faults: one client, 3-9 operations (add, remove, process, read crew; NaN-producing machines, empty and 40 kB ids; half of the adds and removes through the protocol layer's OpAdd.Do / OpRem.Do with no state given, for one of three specs of which two declare a parameter with a default) over <=3 ids, at every operation position the store may start or stop failing (bbolt closed / reopened), after every operation memory is compared with memory-before (failed writes) and with Storage.GetCrew (healthy store); concurrent: 2-4 client tasks x 1-4 operations under the serial scheduler, porcupine against a sequential crew model with the final memory as one more read, plus memory == store at quiescence; both: clients plus a task closing/reopening the store, only the quiescent invariant after the store is back; distinct = distinct (operation, fault) sequences / schedule hashes",
		parts: []part{
			{name: "faults", engine: "mcrew", race: false, quick: 8000, thorough: 80000},
			{name: "concurrent", engine: "mcrew", race: true, quick: 800, thorough: 15000},
			{name: "both", engine: "mcrew", race: true, quick: 800, thorough: 15000},
		},
		comps: []string{"real: cmd/mcrew Service (AddMachine, RemMachine, Process, crew.Copy), protocol.go OpAdd.Do / OpRem.Do, Storage on a real bbolt file (tmpfs), core.Walk, ecmascript interpreter - instrumented copies", "injected: store closed/reopened at operation positions and (part both) at scheduler steps, encode faults (NaN binding), key faults (empty / oversize id); bbolt's own crash consistency is not faulted", "reference: sequential crew model (map id -> state, recipients by the routing rule) for porcupine"},
		assum: []string{"Walk as reported by Process (From/To of each machine) is taken as the sequential transition of the crew model"},
	},
	"C17": {
		level: "exploration",
		rule:  "each run: a tape-generated plan of make/cancel/sleep requests over <=3 timer ids issued by 1-3 requester tasks plus handler-issued requests, executed on the real timers code under the serial scheduler with the simulated clock; sio-restart: 1-4 timers (10 ms to 1 h, and due at once: 0 and -1 ms) made through a running crew whose reports a consumer folds into a store, a crash 0-2 s after the last request, a downtime, a crew booted from the store that also takes requests - pending timers fire once and not early, cancelled ones never, and every timer made was listed as pending by some report before the crash; distinct = distinct (operation history, schedule) event hashes; non-trivial = at least one timer fired or was cancelled and at least two tasks interleaved",
		parts: []part{
			{name: "mcrew-timers", engine: "mcrew", race: true, quick: 4000, thorough: 60000},
			{name: "sio-timers", engine: "sio", race: true, quick: 1500, thorough: 30000},
			{name: "sio-restart", engine: "sio", race: true, quick: 800, thorough: 15000},
		},
		comps: []string{"real: cmd/mcrew/timers.go (instrumented copy)", "simulated: clock (testing/synctest), goroutine scheduling (serial scheduler), map order", "stub: mcrew emitter (harness records firings and issues handler requests)", "real: sio.Crew.Loop, timers machine (sio/timersspec.go), sio.Timers and TimerEntry goroutines, handler machine in ECMAScript; harness = coupling (in/out channels) and a consumer that renders each Result as JSON"},
	},
}
