package main

import (
	"bytes"
	"encoding/json"
	"fmt"
	"os"
	"os/exec"
	"path/filepath"
	"strings"
	"sync"
)

const goRoot = "/opt/veriftools/go1.26.8"

// verifDir is the root of the verification machinery: $VERIF_DIR, or the
// directory above the one holding this executable (so a snapshot of /verif
// elsewhere builds and runs entirely within itself).
var verifDir = func() string {
	if d := os.Getenv("VERIF_DIR"); d != "" {
		return d
	}
	if exe, err := os.Executable(); err == nil {
		if d := filepath.Dir(filepath.Dir(exe)); d != "" {
			if _, err := os.Stat(filepath.Join(d, "harness")); err == nil {
				return d
			}
		}
	}
	return "/verif"
}()

func repoDir() string {
	if d := os.Getenv("VERIF_REPO"); d != "" {
		return d
	}
	return "/repo"
}

func buildDir() string {
	if repoDir() == "/repo" {
		return filepath.Join(verifDir, "build")
	}
	// sensitivity runs against scratch copies get their own build directory
	return filepath.Join(verifDir, "build", "alt-"+strings.ReplaceAll(strings.Trim(repoDir(), "/"), "/", "_"))
}

func goEnv() []string {
	env := os.Environ()
	env = append(env,
		"PATH="+goRoot+"/bin:"+os.Getenv("PATH"),
		"GOFLAGS=-mod=mod", "GOPROXY=off", "GOSUMDB=off", "GOTOOLCHAIN=local", "GONOSUMDB=*", "GONOSUMCHECK=1", "GOFLAGS=-mod=mod")
	return env
}

type engine struct {
	name string
	pkg  string // package dir relative to the repo
}

var engines = map[string]engine{
	"core":   {"core", "interpreters/ecmascript"},
	"sio":    {"sio", "sio"},
	"mcrew":  {"mcrew", "cmd/mcrew"},
	"expect": {"expect", "tools/expect"},
}

type rewriteInfo struct {
	Files []struct {
		Orig  string         `json:"orig"`
		Gen   string         `json:"gen"`
		Sites map[string]int `json:"sites"`
	} `json:"files"`
	Sites map[string]int `json:"sites"`
}

var (
	genOnce sync.Once
	genErr  error
	genInfo rewriteInfo
)

// generate runs the rewriter and writes overlay + modfile (once per process).
func generate() (rewriteInfo, error) {
	genOnce.Do(func() {
		bd := buildDir()
		gen := filepath.Join(bd, "gen")
		os.RemoveAll(gen)
		if err := os.MkdirAll(gen, 0o755); err != nil {
			genErr = err
			return
		}
		cmd := exec.Command(filepath.Join(verifDir, "bin", "simrewrite"), "-repo", repoDir(), "-out", gen)
		cmd.Env = goEnv()
		var out bytes.Buffer
		cmd.Stdout, cmd.Stderr = &out, &out
		if err := cmd.Run(); err != nil {
			genErr = fmt.Errorf("simrewrite: %v\n%s", err, out.String())
			return
		}
		raw, err := os.ReadFile(filepath.Join(gen, "rewrite.json"))
		if err != nil {
			genErr = err
			return
		}
		if err := json.Unmarshal(raw, &genInfo); err != nil {
			genErr = err
			return
		}
		overlay := map[string]string{}
		for _, f := range genInfo.Files {
			overlay[f.Orig] = f.Gen
		}
		for name, e := range engines {
			hs, _ := filepath.Glob(filepath.Join(verifDir, "harness", name, "*.go"))
			for _, h := range hs {
				base := strings.TrimSuffix(filepath.Base(h), ".go")
				overlay[filepath.Join(repoDir(), e.pkg, "zz_verif_"+base+"_test.go")] = h
			}
		}
		js, _ := json.MarshalIndent(map[string]interface{}{"Replace": overlay}, "", " ")
		if err := os.WriteFile(filepath.Join(bd, "overlay.json"), js, 0o644); err != nil {
			genErr = err
			return
		}
		mod, err := os.ReadFile(filepath.Join(repoDir(), "go.mod"))
		if err != nil {
			genErr = err
			return
		}
		mod = append(mod, []byte("\nrequire verif v0.0.0\n\nreplace verif => "+verifDir+"\n\nrequire github.com/anishathalye/porcupine v1.3.0\n")...)
		if err := os.WriteFile(filepath.Join(bd, "sheens.mod"), mod, 0o644); err != nil {
			genErr = err
			return
		}
		sum, _ := os.ReadFile(filepath.Join(repoDir(), "go.sum"))
		extra, _ := os.ReadFile(filepath.Join(verifDir, "go.sum"))
		sum = append(sum, extra...)
		if err := os.WriteFile(filepath.Join(bd, "sheens.sum"), sum, 0o644); err != nil {
			genErr = err
			return
		}
	})
	return genInfo, genErr
}

var (
	binMu   sync.Mutex
	binDone = map[string]error{}
)

func binPath(eng string, race bool) string {
	n := eng
	if race {
		n += "-race"
	}
	return filepath.Join(buildDir(), "bin", n+".test")
}

// buildEngine builds the executor of an engine from the current working tree.
func buildEngine(eng string, race bool) error {
	if _, err := generate(); err != nil {
		return err
	}
	binMu.Lock()
	defer binMu.Unlock()
	key := binPath(eng, race)
	if err, ok := binDone[key]; ok {
		return err
	}
	e := engines[eng]
	bd := buildDir()
	os.MkdirAll(filepath.Join(bd, "bin"), 0o755)
	args := []string{"test", "-c", "-vet=off", "-tags", "verif_sim",
		"-modfile=" + filepath.Join(bd, "sheens.mod"), "-overlay=" + filepath.Join(bd, "overlay.json"),
		"-o", key}
	if race {
		args = append(args, "-race")
	}
	args = append(args, "./"+e.pkg)
	cmd := exec.Command(goRoot+"/bin/go", args...)
	cmd.Dir = repoDir()
	cmd.Env = goEnv()
	var out bytes.Buffer
	cmd.Stdout, cmd.Stderr = &out, &out
	err := cmd.Run()
	if err != nil {
		err = fmt.Errorf("build %s: %v\n%s", eng, err, out.String())
	}
	binDone[key] = err
	return err
}

func cmdPrebuild() int {
	if _, err := generate(); err != nil {
		fmt.Fprintln(os.Stderr, err)
		return 2
	}
	seen := map[string]bool{}
	rc := 0
	for _, p := range propOrder {
		for _, part := range props[p].parts {
			k := binPath(part.engine, part.race)
			if seen[k] {
				continue
			}
			seen[k] = true
			if err := buildEngine(part.engine, part.race); err != nil {
				fmt.Fprintln(os.Stderr, err)
				rc = 2
			} else {
				fmt.Println("built", k)
			}
		}
	}
	return rc
}
