module verif

go 1.20

require github.com/anishathalye/porcupine v1.3.0
