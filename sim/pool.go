package sim

import (
	"sync"
	"unsafe"
)

// Pool stands in for sync.Pool in the instrumented sources (the shipped code
// has none today; a change that recycles objects gets this seam for free).
// sync.Pool hands objects out per processor and drops them at the collector's
// whim, neither of which replays; here which pooled object a Get receives, and
// whether a Put or a Get loses one, are tape draws.  As with sync.Pool the
// only happens-before edge is from the Put of an object to the Get that
// returns that object.
type Pool struct {
	New func() any

	mu   sync.Mutex
	head *poolItem // most recently put first; a list, because the runtime's slice
	n    int       // helpers report their accesses to the race detector themselves
	run  *Ctx      // the simulated run the pooled objects belong to
}

// fresh empties the pool when a new simulated run begins (the pool is usually
// a package-level variable and so outlives a run): what one run leaves behind
// must not decide what the next one sees, or runs would not replay.
//
//go:norace
func (p *Pool) fresh() {
	if c := current(); c != p.run {
		p.run, p.head, p.n = c, nil, 0
	}
}

type poolItem struct {
	v    any
	next *poolItem
	sync byte
}

//go:norace
func (p *Pool) lock() {
	raceDisable() // until unlock: the pool's own bookkeeping synchronises nothing
	p.mu.Lock()
}

//go:norace
func (p *Pool) unlock() {
	p.mu.Unlock()
	raceEnable()
}

// Put adds x to the pool.
//
//go:norace
func (p *Pool) Put(x any) {
	if x == nil {
		return
	}
	if c := current(); c != nil {
		if _, t := curTask(); t != nil && orderDraw(c, 8, "pool-put") == 7 {
			return // dropped, as the collector may
		}
	}
	it := &poolItem{v: x}
	raceReleaseMerge(unsafe.Pointer(&it.sync))
	p.lock()
	p.fresh()
	it.next = p.head
	p.head = it
	p.n++
	p.unlock()
}

// Get takes an object from the pool, or makes one with New.
//
//go:norace
func (p *Pool) Get() any {
	var it *poolItem
	p.lock()
	p.fresh()
	if n := p.n; n > 0 {
		i := 0
		if c := current(); c != nil {
			if _, t := curTask(); t != nil {
				// most recently put first (draw 0), any other, or none (draw n)
				i = orderDraw(c, n+1, "pool-get")
			}
		}
		if i < n {
			link := &p.head
			for ; i > 0; i-- {
				link = &(*link).next
			}
			it = *link
			*link = it.next
			it.next = nil
			p.n--
		}
	}
	p.unlock()
	if it != nil {
		raceAcquire(unsafe.Pointer(&it.sync))
		return it.v
	}
	if p.New != nil {
		return p.New()
	}
	return nil
}
