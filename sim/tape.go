// Package sim is the deterministic simulator used by the /verif checks: one
// choice tape decides every schedule, delay, fault, map order and generated
// input of a run.  The package is imported both by the harnesses and by the
// instrumented copies of the sheens sources (see /verif/rewrite).
package sim

// TapeCap bounds the number of recorded draws of one run.
const TapeCap = 1 << 18

// Tape is the single source of choices of a run.  In search mode values come
// from a PRNG seeded by the run seed and are recorded; in replay mode they are
// read from a file (0 once exhausted).  All methods that can be reached from
// task context are //go:norace and touch only preallocated arrays, because the
// serial scheduler deliberately creates no happens-before edge between tasks.
type Tape struct {
	vals   [TapeCap]uint32
	ns     [TapeCap]uint32
	labels [TapeCap]string
	n      int
	over   bool

	replay     []uint32
	replayMode bool
	state      uint64
}

//go:norace
func (t *Tape) Reset(seed uint64, replay []uint32, replayMode bool) {
	t.n = 0
	t.over = false
	t.replay = replay
	t.replayMode = replayMode
	t.state = seed*0x9E3779B97F4A7C15 + 0xD1B54A32D192ED03
}

//go:norace
func (t *Tape) next() uint64 {
	t.state += 0x9E3779B97F4A7C15
	z := t.state
	z = (z ^ (z >> 30)) * 0xBF58476D1CE4E5B9
	z = (z ^ (z >> 27)) * 0x94D049BB133111EB
	return z ^ (z >> 31)
}

// Draw returns a choice in [0,n).  n<=1 draws nothing.
//
//go:norace
func (t *Tape) Draw(n int, label string) int {
	if n <= 1 {
		return 0
	}
	var v uint32
	if t.replayMode {
		if t.n < len(t.replay) {
			v = t.replay[t.n] % uint32(n)
		}
	} else {
		v = uint32(t.next() % uint64(n))
	}
	if t.n < TapeCap {
		t.vals[t.n] = v
		t.ns[t.n] = uint32(n)
		t.labels[t.n] = label
		t.n++
	} else {
		t.over = true
	}
	return int(v)
}

// Len is the number of draws so far.
//
//go:norace
func (t *Tape) Len() int { return t.n }

// Overflowed reports whether the run drew more than TapeCap values.
//
//go:norace
func (t *Tape) Overflowed() bool { return t.over }

// Values copies the recorded draws (root context, after the run).
//
//go:norace
func (t *Tape) Values() []uint32 {
	out := make([]uint32, t.n)
	for i := 0; i < t.n; i++ {
		out[i] = t.vals[i]
	}
	return out
}

// Decoded renders the draws with their labels (root context, after the run).
//
//go:norace
func (t *Tape) Decoded() []string {
	out := make([]string, 0, t.n)
	for i := 0; i < t.n; i++ {
		out = append(out, t.labels[i]+"="+itoa(int(t.vals[i]))+"/"+itoa(int(t.ns[i])))
	}
	return out
}

//go:norace
func itoa(v int) string {
	if v == 0 {
		return "0"
	}
	neg := v < 0
	if neg {
		v = -v
	}
	var b [24]byte
	i := len(b)
	for v > 0 {
		i--
		b[i] = byte('0' + v%10)
		v /= 10
	}
	if neg {
		i--
		b[i] = '-'
	}
	return string(b[i:])
}
