package sim

import "time"

// Ev is one observation recorded by a task.  Seq is a total order over all
// observations of a run (only one task runs at a time), and is what history
// checkers use as invoke/return stamps.
type Ev struct {
	Seq  int
	Task string
	Kind string
	Id   string
	Val  string
	N    int64
	At   time.Duration
	Ok   bool
	Err  string
}

// LogCap bounds the observations of one run.
const LogCap = 1 << 13

// Log is an append-only observation log that tasks may write without creating
// happens-before edges between them (norace, preallocated).  The root reads it
// after the scheduler has settled.
type Log struct {
	evs  [LogCap]Ev
	n    int
	over bool
	t0   time.Time
}

// NewLog must be created inside the bubble (it remembers the start time).
func NewLog() *Log { return &Log{t0: time.Now()} }

// Add appends an observation and returns its sequence number.
//
//go:norace
func (l *Log) Add(e Ev) int {
	if l.n >= LogCap {
		l.over = true
		return l.n
	}
	e.Seq = l.n
	e.At = time.Since(l.t0)
	if e.Task == "" {
		e.Task = CurTaskName()
	}
	l.evs[l.n] = e
	l.n++
	return e.Seq
}

// Events returns the observations so far (root context).
//
//go:norace
func (l *Log) Events() []Ev {
	out := make([]Ev, l.n)
	copy(out, l.evs[:l.n])
	return out
}

// Len is the number of observations so far.
//
//go:norace
func (l *Log) Len() int { return l.n }

// Overflowed reports lost observations.
//
//go:norace
func (l *Log) Overflowed() bool { return l.over }

// CurTaskName names the calling task ("" if the caller is not a task).
//
//go:norace
func CurTaskName() string {
	if gFree.Load() {
		return ""
	}
	t := lookup(goid())
	if t == nil {
		return ""
	}
	return t.Name
}

// Install makes c the run the hooks consult; Uninstall clears it.  Root
// context, before any task exists / after all have gone.
func Install(c *Ctx) { cur = c }

// Uninstall clears the current run.
func Uninstall() { cur = nil }
