package sim

import (
	"fmt"
	"os"
	"sort"
	"testing/synctest"
	"time"
	"unsafe"
)

// Task is a logical thread of a simulated run: a harness task or a goroutine
// started by instrumented sheens code.  Names are stable across processes and
// GOMAXPROCS settings: "<parent>.<spawn ordinal>".
type Task struct {
	Name   string
	Origin string // site of the go statement (informational)

	resume chan int
	sched  *Sched
	nspawn int // touched only by the task itself
	Step   int // scheduler step at which the task was last resumed (task-local)

	// root-owned (scheduler goroutine) below
	weight    int // Skew: the task's current share of the scheduler's choice
	site      string
	kind      int
	blockedAt int
	parked    bool
	harness   bool
	done      bool
}

type parkEv struct {
	t    *Task
	site string
	kind int
}

// StepRec is one scheduler decision.
type StepRec struct {
	Step int
	Task string
	Site string
	At   time.Duration
}

// Sched is the cooperative serial scheduler of one run.  It lives on the root
// goroutine of a synctest bubble.
type Sched struct {
	c *Ctx

	parkCh chan parkEv
	sync   int64 // address used for task -> scheduler happens-before

	parked []*Task
	all    []*Task
	live   int // harness tasks not finished

	step         int
	lastProgress int
	start        time.Time

	// configuration (set before Run)
	MaxSteps  int
	Horizon   time.Duration   // simulated time after which the run ends
	Stalls    []time.Duration // non-empty: the tape may stall runnable tasks and let time pass
	StallW    int             // weight of the stall option against 4 per runnable task
	YieldMask int
	Skew      bool // tasks get unequal, occasionally redrawn weights (1, 4 or 16) instead of equal ones: longer runs of one task, long-delayed others
	OnIdle    func() // called on the root goroutine whenever nothing is runnable, before time advances
	OnStep    func() // called on the root goroutine before every decision (everything is blocked)
	StopWhen  func() bool
	OnRelease func(task, site string) // called on the root goroutine just before a task is resumed

	// results
	Trace     []StepRec
	Hash      uint64
	Steps     int
	Switches  int // decisions where >1 task was eligible
	Stalled   int
	Deadlock  []string // tasks blocked on locks at the end with nobody able to run
	Stuck     []string // harness tasks neither done nor parked at the end
	Exhausted bool     // MaxSteps reached
	SimTime   time.Duration
}

var skewWeights = []int{4, 1, 16}

// NewSched creates the scheduler for c; must be called inside a synctest
// bubble on the goroutine that will call Run.
func NewSched(c *Ctx) *Sched {
	s := &Sched{c: c, parkCh: make(chan parkEv, 1024), MaxSteps: 4000, Horizon: time.Hour, StallW: 1}
	s.Hash = 1469598103934665603
	s.start = time.Now()
	c.Sched = s
	clearTable()
	gFree.Store(false)
	return s
}

// Now is simulated time since the start of the run.
func (s *Sched) Now() time.Duration { return time.Since(s.start) }

// Go starts a harness task.  fn runs as a task: every hook it passes through
// (directly or inside instrumented sheens code) is a scheduling point.
// Root context only.
func (s *Sched) Go(name string, fn func(t *Task)) *Task {
	t := &Task{Name: name, resume: make(chan int), harness: true, sched: s}
	s.all = append(s.all, t)
	s.live++
	go func() {
		register(goid(), t)
		s.park(t, "start", kBorn)
		fn(t)
		s.finish(t)
	}()
	return t
}

//go:norace
func (s *Sched) park(t *Task, site string, kind int) {
	raceReleaseMerge(unsafe.Pointer(&s.sync))
	raceDisable()
	s.parkCh <- parkEv{t, site, kind}
	st := <-t.resume
	raceEnable()
	t.Step = st
}

//go:norace
func (s *Sched) finish(t *Task) {
	raceReleaseMerge(unsafe.Pointer(&s.sync))
	raceDisable()
	s.parkCh <- parkEv{t, "done", kDone}
	raceEnable()
}

// settle waits until every goroutine of the bubble is durably blocked and
// collects the park events that arrived.
func (s *Sched) settle() {
	for {
		synctest.Wait()
		raceAcquire(unsafe.Pointer(&s.sync))
		got := false
		for {
			select {
			case ev := <-s.parkCh:
				s.handle(ev)
				got = true
				continue
			default:
			}
			break
		}
		if !got {
			return
		}
	}
}

func (s *Sched) handle(ev parkEv) {
	t := ev.t
	if ev.kind == kDone {
		t.done = true
		if t.harness {
			s.live--
		}
		return
	}
	if ev.kind == kBorn && !t.harness {
		s.all = append(s.all, t)
	}
	t.site, t.kind, t.parked = ev.site, ev.kind, true
	if ev.kind == kBlocked {
		t.blockedAt = s.step
	}
	s.parked = append(s.parked, t)
}

func (s *Sched) eligible() []*Task {
	sort.Slice(s.parked, func(i, j int) bool { return s.parked[i].Name < s.parked[j].Name })
	var el []*Task
	for _, t := range s.parked {
		if t.kind == kBlocked && t.blockedAt >= s.lastProgress {
			continue
		}
		el = append(el, t)
	}
	return el
}

func (s *Sched) release(t *Task) {
	for i, p := range s.parked {
		if p == t {
			s.parked = append(s.parked[:i], s.parked[i+1:]...)
			break
		}
	}
	t.parked = false
	s.step++
	if t.kind != kBlocked {
		s.lastProgress = s.step
	}
	at := s.Now()
	if s.c.TraceOn {
		s.Trace = append(s.Trace, StepRec{s.step, t.Name, t.site, at})
	}
	s.mix(t.Name)
	s.mix(t.site)
	s.mixInt(uint64(at))
	if s.OnRelease != nil {
		s.OnRelease(t.Name, t.site)
	}
	t.resume <- s.step
}

func (s *Sched) mix(x string) {
	for i := 0; i < len(x); i++ {
		s.Hash ^= uint64(x[i])
		s.Hash *= 1099511628211
	}
	s.Hash ^= 0xff
	s.Hash *= 1099511628211
}

func (s *Sched) mixInt(v uint64) {
	for i := 0; i < 8; i++ {
		s.Hash ^= v & 0xff
		s.Hash *= 1099511628211
		v >>= 8
	}
}

// MixHash lets a harness fold its own observations into the run's event hash
// (root context).
func (s *Sched) MixHash(x string) { s.mix(x) }

// Run schedules until the horizon, the step budget, StopWhen, or until nothing
// can ever run again.
func (s *Sched) Run() {
	tape := s.c.Tape
	for {
		s.settle()
		if s.OnStep != nil {
			s.OnStep()
			s.settle() // whatever the hook set in motion has come to rest before the decision
		}
		if s.StopWhen != nil && s.StopWhen() {
			break
		}
		if s.step >= s.MaxSteps {
			s.Exhausted = true
			break
		}
		el := s.eligible()
		now := s.Now()
		if now >= s.Horizon {
			break
		}
		if len(el) == 0 {
			if s.OnIdle != nil {
				s.OnIdle()
			}
			// Nothing runnable: let simulated time move to the next timer
			// (of sheens or of a sleeping harness task), at most to the horizon.
			if !s.advance(s.Horizon - now) {
				break // horizon reached with nothing happening in between
			}
			continue
		}
		if len(el) > 1 {
			s.Switches++
		}
		n := 4 * len(el)
		if s.Skew {
			// priorities in the manner of PCT: drawn when a task is first seen, one of them
			// redrawn now and then
			for _, t := range el {
				if t.weight == 0 {
					t.weight = skewWeights[tape.Draw(len(skewWeights), "weight")]
				}
			}
			if len(el) > 1 && tape.Draw(8, "reweigh") == 7 {
				el[tape.Draw(len(el), "reweigh-whom")].weight = skewWeights[tape.Draw(len(skewWeights), "weight")]
			}
			n = 0
			for _, t := range el {
				n += t.weight
			}
		}
		tasksN := n
		stall := len(s.Stalls) > 0 && s.StallW > 0
		if stall {
			n += s.StallW
		}
		v := tape.Draw(n, "sched")
		if v >= tasksN {
			d := s.Stalls[tape.Draw(len(s.Stalls), "stall")]
			if d > s.Horizon-now {
				d = s.Horizon - now
			}
			s.Stalled++
			s.mix("stall")
			s.mixInt(uint64(d))
			if s.c.TraceOn {
				s.Trace = append(s.Trace, StepRec{s.step, "(stall)", d.String(), now})
			}
			s.advance(d)
			continue
		}
		if s.c.TraceOn && os.Getenv("VERIF_TRACE_ELIGIBLE") != "" {
			names := ""
			for _, t := range el {
				names += t.Name + "@" + t.site + " "
			}
			s.Trace = append(s.Trace, StepRec{s.step, "(eligible)", fmt.Sprintf("v=%d n=%d: %s", v, n, names), now})
		}
		if s.Skew {
			for _, t := range el {
				if v < t.weight {
					s.release(t)
					break
				}
				v -= t.weight
			}
			continue
		}
		s.release(el[v/4])
	}
	s.Steps = s.step
	s.SimTime = s.Now()
}

// advance blocks the scheduler for at most d of simulated time; returns true
// if a task parked meanwhile (something happened).
func (s *Sched) advance(d time.Duration) bool {
	if d <= 0 {
		return false
	}
	tm := time.NewTimer(d)
	select {
	case ev := <-s.parkCh:
		tm.Stop()
		raceAcquire(unsafe.Pointer(&s.sync))
		s.handle(ev)
		return true
	case <-tm.C:
		return false
	}
}

// Drain runs whatever is left serially (first eligible task, no tape draws)
// after the harness has cancelled its contexts, then lets every hook pass
// through.  Call it before leaving the bubble.
func (s *Sched) Drain(maxSteps int) {
	retried := false
	for i := 0; i < maxSteps; i++ {
		s.settle()
		el := s.eligible()
		if len(el) == 0 {
			if len(s.parked) > 0 {
				if retried {
					break // only lock-blocked tasks remain, and they were retried
				}
				retried = true
				for _, t := range s.parked {
					t.blockedAt = -1
				}
				continue
			}
			if !s.advance(time.Millisecond) {
				break
			}
			continue
		}
		s.release(el[0])
	}
	s.settle()
	// Collect end-of-run facts before hooks are disabled.
	for _, t := range s.parked {
		if t.kind == kBlocked {
			s.Deadlock = append(s.Deadlock, t.Name+"@"+t.site)
		}
	}
	for _, t := range s.all {
		if t.harness && !t.done && !t.parked {
			s.Stuck = append(s.Stuck, t.Name)
		}
	}
	gFree.Store(true)
	for _, t := range s.parked {
		t.parked = false
		t.resume <- -1
	}
	s.parked = nil
}

// Quiescent reports whether nothing is parked and every harness task has
// finished.  Only then may the root call blocking APIs of the code under test
// (a parked task may hold one of its locks).  Root context, after Run.
func (s *Sched) Quiescent() bool {
	s.settle()
	return len(s.parked) == 0 && s.live == 0
}

// ParkedAt is the site at which the named task waits for the scheduler ("" when it
// runs, has ended or does not exist).  Root context, when the scheduler is settled
// (OnStep): lets a harness place a fault inside a particular operation.
func (s *Sched) ParkedAt(name string) string {
	for _, t := range s.parked {
		if t.Name == name {
			return t.site
		}
	}
	return ""
}

// LiveSpawned names the goroutines started by instrumented code (not harness
// tasks) that have been born and have not ended, with the site of the go
// statement that started them.  Root context, when the scheduler is settled.
func (s *Sched) LiveSpawned() []string {
	var out []string
	for _, t := range s.all {
		if !t.harness && !t.done {
			out = append(out, t.Name+"<-"+t.Origin)
		}
	}
	sort.Strings(out)
	return out
}

// Sleep blocks the calling task for d of simulated time (a durable block; the
// clock moves only when the scheduler lets it).
//
// Two tasks whose sleeps end at the same simulated instant wake together; each
// parks again immediately, so the scheduler (not the runtime) decides who
// continues first.
func Sleep(d time.Duration) {
	time.Sleep(d)
	Yield("sim.Sleep#wake")
}
