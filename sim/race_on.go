//go:build race

package sim

import (
	"runtime"
	"unsafe"
)

// RaceEnabled reports whether the binary was built with the race detector.
const RaceEnabled = true

//go:norace
func raceDisable() { runtime.RaceDisable() }

//go:norace
func raceEnable() { runtime.RaceEnable() }

//go:norace
func raceReleaseMerge(p unsafe.Pointer) { runtime.RaceReleaseMerge(p) }

//go:norace
func raceAcquire(p unsafe.Pointer) { runtime.RaceAcquire(p) }
