package sim

import (
	"fmt"
	"runtime/debug"
	"testing"
	"testing/synctest"
)

// Bubble runs body as the root goroutine of a synctest bubble with a fresh
// scheduler installed.  It returns the text of synctest's end-of-bubble panic
// (goroutines left durably blocked when the root returned), or "".  A panic of
// body itself is re-raised in the caller.
func Bubble(c *Ctx, t *testing.T, body func(s *Sched)) (leak string) {
	var bodyPanic interface{}
	var bodyStack string
	// The bubble runs in a subtest: when the race monitor has reported
	// something, testing fails the (sub)test with FailNow, which must not
	// take the executor's run loop with it.
	t.Run("b", func(tt *testing.T) {
		defer func() {
			if r := recover(); r != nil {
				leak = fmt.Sprint(r)
			}
		}()
		synctest.Test(tt, func(*testing.T) {
			defer func() {
				if r := recover(); r != nil {
					bodyPanic = r
					bodyStack = string(debug.Stack())
					gFree.Store(true)
				}
			}()
			s := NewSched(c)
			Install(c)
			body(s)
		})
	})
	gFree.Store(true)
	Uninstall()
	if bodyPanic != nil {
		panic(fmt.Sprintf("%v\n%s", bodyPanic, bodyStack))
	}
	return leak
}
