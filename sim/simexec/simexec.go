// Package simexec is the in-bubble stand-in for os/exec that the instrumented
// copy of tools/expect/expect.go uses (exec.Command -> simexec.Command): the
// "child process" is a goroutine supplied by the harness, connected through
// io.Pipes, so the expectation tool's own reader/writer/timer code runs for
// real on the simulated clock.
package simexec

import (
	"errors"
	"io"

	"verif/sim"
)

// Child is the body of a simulated child process.
type Child func(stdin io.Reader, stdout, stderr io.Writer)

// Factory is set by the harness before Session.Run is called.
var Factory func(name string, args []string) Child

// Cmd offers the subset of *exec.Cmd that expect.Session.Run uses.
type Cmd struct {
	child           Child
	stdinR, stdoutR *io.PipeReader
	stdinW, stdoutW *io.PipeWriter
	stderrR         *io.PipeReader
	stderrW         *io.PipeWriter
	done            chan struct{}
	started         bool
}

// Last is the most recently created command (for the harness to kill it).
var Last *Cmd

// Command mirrors exec.Command.
func Command(name string, arg ...string) *Cmd {
	c := &Cmd{done: make(chan struct{})}
	Last = c
	if Factory != nil {
		c.child = Factory(name, arg)
	}
	return c
}

func (c *Cmd) StdinPipe() (io.WriteCloser, error) {
	c.stdinR, c.stdinW = io.Pipe()
	return c.stdinW, nil
}

func (c *Cmd) StdoutPipe() (io.ReadCloser, error) {
	c.stdoutR, c.stdoutW = io.Pipe()
	return c.stdoutR, nil
}

func (c *Cmd) StderrPipe() (io.ReadCloser, error) {
	c.stderrR, c.stderrW = io.Pipe()
	return c.stderrR, nil
}

// Start runs the child as a task of the current simulated run.
func (c *Cmd) Start() error {
	if c.child == nil {
		return errors.New("simexec: no child factory installed")
	}
	if c.stdinR == nil || c.stdoutW == nil || c.stderrW == nil {
		return errors.New("simexec: pipes not set up")
	}
	c.started = true
	tok := sim.Spawn("simexec.child")
	go func() {
		sim.Born(tok)
		defer sim.Done(tok)
		c.child(c.stdinR, c.stdoutW, c.stderrW)
		c.stdoutW.Close()
		c.stderrW.Close()
		close(c.done)
	}()
	return nil
}

// Wait waits for the child to exit.
func (c *Cmd) Wait() error {
	<-c.done
	return nil
}

// Kill unblocks a child that is still reading or writing (harness use).
func (c *Cmd) Kill() {
	if c.stdinR != nil {
		c.stdinR.CloseWithError(io.ErrClosedPipe)
	}
	if c.stdoutW != nil {
		c.stdoutW.CloseWithError(io.ErrClosedPipe)
	}
	if c.stderrW != nil {
		c.stderrW.CloseWithError(io.ErrClosedPipe)
	}
}
