//go:build !race

package sim

import "unsafe"

// RaceEnabled reports whether the binary was built with the race detector.
const RaceEnabled = false

func raceDisable()                      {}
func raceEnable()                       {}
func raceReleaseMerge(p unsafe.Pointer) {}
func raceAcquire(p unsafe.Pointer)      {}
