package sim

import (
	"bufio"
	"encoding/json"
	"fmt"
	"os"
	"path/filepath"
	"runtime"
	"sort"
	"strings"
	"testing"
	"time"
)

// Job is what the driver asks an executor process to do.
type Job struct {
	Prop     string            `json:"prop"`
	Part     string            `json:"part,omitempty"` // sub-check within the property (a property may have several runners)
	Tier     string            `json:"tier"`
	Mode     string            `json:"mode"` // "search" | "replay"
	SeedBase uint64            `json:"seed_base"`
	From     int               `json:"from"`
	Count    int               `json:"count"`
	Tape     []uint32          `json:"tape,omitempty"`
	Out      string            `json:"out"`
	Trace    bool              `json:"trace,omitempty"`
	KeepTape bool              `json:"keep_tape,omitempty"`
	RaceLog  string            `json:"race_log,omitempty"`
	Deadline int64             `json:"deadline,omitempty"` // unix seconds; 0 = none
	Params   map[string]string `json:"params,omitempty"`
}

// Result is one run, one JSON line in Job.Out.
type Result struct {
	Kind    string         `json:"kind"` // "start" | "run" | "end"
	Index   int            `json:"index"`
	Seed    uint64         `json:"seed"`
	Part    string         `json:"part,omitempty"`
	Hash    string         `json:"hash,omitempty"`
	Viol    []Violation    `json:"viol,omitempty"`
	Stats   map[string]int `json:"stats,omitempty"`
	Path    string         `json:"path,omitempty"`
	Trivial bool           `json:"trivial,omitempty"`
	TapeLen int            `json:"tape_len,omitempty"`
	Tape    []uint32       `json:"tape,omitempty"`
	Decoded []string       `json:"decoded,omitempty"`
	Trace   []string       `json:"trace,omitempty"`
	Steps   int            `json:"steps,omitempty"`
	SimNs   int64          `json:"sim_ns,omitempty"`
	Sample  interface{}    `json:"sample,omitempty"`
	Infra   string         `json:"infra,omitempty"` // harness / infrastructure trouble (never a violation)
}

// Runner executes one simulated run of a property (or of one part of it).
type Runner func(c *Ctx, t *testing.T)

// Registry maps "<prop>" or "<prop>/<part>" to a runner.
type Registry map[string]Runner

// MixSeed derives the seed of run i.
func MixSeed(base uint64, i int) uint64 {
	z := base + 0x9E3779B97F4A7C15*uint64(i+1)
	z = (z ^ (z >> 30)) * 0xBF58476D1CE4E5B9
	z = (z ^ (z >> 27)) * 0x94D049BB133111EB
	return z ^ (z >> 31)
}

var theTape Tape

// Main is the body of every executor's TestSim.
func Main(t *testing.T, reg Registry) {
	jobFile := os.Getenv("VERIF_JOB")
	if jobFile == "" {
		t.Skip("VERIF_JOB not set")
	}
	raw, err := os.ReadFile(jobFile)
	if err != nil {
		t.Fatalf("job: %v", err)
	}
	var job Job
	if err := json.Unmarshal(raw, &job); err != nil {
		t.Fatalf("job: %v", err)
	}
	key := job.Prop
	if job.Part != "" {
		key += "/" + job.Part
	}
	run, ok := reg[key]
	if !ok {
		t.Fatalf("no runner for %q", key)
	}
	f, err := os.OpenFile(job.Out, os.O_CREATE|os.O_WRONLY|os.O_APPEND, 0o644)
	if err != nil {
		t.Fatalf("out: %v", err)
	}
	defer f.Close()
	w := bufio.NewWriter(f)
	emit := func(r *Result) {
		b, err := json.Marshal(r)
		if err != nil {
			// A sample that does not marshal must not lose the run.
			r.Sample = fmt.Sprintf("%v", r.Sample)
			b, _ = json.Marshal(r)
		}
		w.Write(b)
		w.WriteByte('\n')
		w.Flush()
	}
	go memoryGuard()
	rl := newRaceLog(job.RaceLog)
	for i := job.From; i < job.From+job.Count; i++ {
		if job.Deadline != 0 && time.Now().Unix() > job.Deadline {
			break
		}
		seed := MixSeed(job.SeedBase, i)
		emit(&Result{Kind: "start", Index: i, Seed: seed, Part: job.Part})
		c := &Ctx{Prop: job.Prop, Seed: seed, Tier: job.Tier, Tape: &theTape, Stats: map[string]int{}, TraceOn: job.Trace, Params: job.Params}
		theTape.Reset(seed, job.Tape, job.Mode == "replay")
		runGuarded(c, t, run)
		r := &Result{Kind: "run", Index: i, Seed: seed, Part: job.Part, Viol: c.Viol, Stats: c.Stats, Path: c.Path,
			Trivial: c.Trivial, TapeLen: theTape.Len(), SimNs: int64(c.SimTime), Sample: c.Sample, Infra: c.Infra}
		if c.Sched != nil {
			r.Hash = fmt.Sprintf("%016x", c.Sched.Hash^c.hash)
			r.Steps = c.Sched.Steps
		} else {
			r.Hash = fmt.Sprintf("%016x", c.hash)
		}
		if theTape.Overflowed() {
			// more draws than a replay file records: the run still replays from its seed and
			// index (the values come from the run's own PRNG); counted, not an obstacle
			c.Count("runs_with_more_draws_than_recorded")
		}
		for _, rr := range rl.collect() {
			if rr.sig == "" {
				r.Infra = "race report without sheens frames:\n" + rr.text
				continue
			}
			r.Viol = append(r.Viol, Violation{Prop: job.Prop, Sig: "race:" + rr.sig, Detail: rr.text})
		}
		if len(r.Viol) > 0 || job.KeepTape || job.Trace {
			r.Tape = theTape.Values()
		}
		if job.Trace {
			r.Decoded = theTape.Decoded()
			r.Trace = c.Lines
			if c.Sched != nil {
				for _, s := range c.Sched.Trace {
					r.Trace = append(r.Trace, fmt.Sprintf("step %d t=%v %s @ %s", s.Step, s.At, s.Task, s.Site))
				}
			}
		}
		emit(r)
	}
	emit(&Result{Kind: "end"})
}

// memoryGuard ends the executor when its heap passes a budget (real time, outside
// any bubble): the sandbox has no memory limit, and a generated program whose
// bindings nest themselves on every step would otherwise take the machine down.
// The driver recognises the marker and counts the run as skipped.
func memoryGuard() {
	var ms runtime.MemStats
	for {
		time.Sleep(250 * time.Millisecond)
		runtime.ReadMemStats(&ms)
		if ms.HeapAlloc > 3<<30 {
			fmt.Fprintln(os.Stderr, "VERIF-MEMORY-BUDGET exceeded: heap", ms.HeapAlloc)
			os.Exit(3)
		}
	}
}

func runGuarded(c *Ctx, t *testing.T, run Runner) {
	defer func() {
		cur = nil
		if r := recover(); r != nil {
			c.Violate("panic:"+panicSite(), "panic: %v\n%s", r, shortStack())
		}
	}()
	run(c, t)
}

// Guard runs f and turns a panic into a violation "panic:<innermost sheens
// function>"; returns true if f panicked.
func (c *Ctx) Guard(what string, f func()) (panicked bool) {
	defer func() {
		if r := recover(); r != nil {
			panicked = true
			c.Violate("panic:"+panicSite(), "%s: panic: %v\n%s", what, r, shortStack())
		}
	}()
	f()
	return false
}

// panicSite names the innermost sheens function on the panicking stack.
func panicSite() string {
	pcs := make([]uintptr, 64)
	n := runtime.Callers(3, pcs)
	frames := runtime.CallersFrames(pcs[:n])
	for {
		fr, more := frames.Next()
		if strings.Contains(fr.Function, "Comcast/sheens/") && !strings.Contains(fr.File, "zz_verif_") {
			return shortFunc(fr.Function)
		}
		if !more {
			break
		}
	}
	return "harness"
}

func shortFunc(f string) string {
	f = strings.TrimPrefix(f, "github.com/Comcast/sheens/")
	// drop closure suffixes' numbering noise but keep the enclosing function
	return f
}

func shortStack() string {
	buf := make([]byte, 8192)
	n := runtime.Stack(buf, false)
	lines := strings.Split(string(buf[:n]), "\n")
	if len(lines) > 40 {
		lines = lines[:40]
	}
	return strings.Join(lines, "\n")
}

// ---- race log -----------------------------------------------------------

type raceReport struct {
	sig  string
	text string
}

type raceLog struct {
	prefix string
	offs   map[string]int64
}

func newRaceLog(prefix string) *raceLog {
	return &raceLog{prefix: prefix, offs: map[string]int64{}}
}

// collect returns the race reports written since the last call.
func (rl *raceLog) collect() []raceReport {
	if rl.prefix == "" {
		return nil
	}
	files, _ := filepath.Glob(rl.prefix + ".*")
	sort.Strings(files)
	var out []raceReport
	for _, fn := range files {
		b, err := os.ReadFile(fn)
		if err != nil {
			continue
		}
		off := rl.offs[fn]
		if int64(len(b)) <= off {
			continue
		}
		txt := string(b[off:])
		rl.offs[fn] = int64(len(b))
		out = append(out, ParseRaceReports(txt)...)
	}
	return out
}

// ParseRaceReports splits race detector output into reports and derives the
// signature "<funcA>|<funcB>": the innermost sheens frames of the two
// conflicting accesses, sorted.
func ParseRaceReports(txt string) []raceReport {
	var out []raceReport
	for _, blk := range strings.Split(txt, "==================") {
		if !strings.Contains(blk, "WARNING: DATA RACE") {
			continue
		}
		var stacks [][]string
		var curStack []string
		inAccess := false
		for _, ln := range strings.Split(blk, "\n") {
			tl := strings.TrimSpace(ln)
			switch {
			case strings.HasPrefix(tl, "Read at"), strings.HasPrefix(tl, "Write at"),
				strings.HasPrefix(tl, "Previous read at"), strings.HasPrefix(tl, "Previous write at"),
				strings.HasPrefix(tl, "Atomic"), strings.HasPrefix(tl, "Previous atomic"):
				if curStack != nil {
					stacks = append(stacks, curStack)
				}
				curStack = []string{}
				inAccess = true
			case strings.HasPrefix(tl, "Goroutine "):
				if curStack != nil {
					stacks = append(stacks, curStack)
					curStack = nil
				}
				inAccess = false
			case inAccess && tl != "" && !strings.HasPrefix(tl, "/") && strings.HasSuffix(tl, ")"):
				curStack = append(curStack, tl)
			case inAccess && strings.HasPrefix(tl, "/") && len(curStack) > 0:
				if strings.Contains(tl, "zz_verif_") {
					curStack[len(curStack)-1] = "harness:" + curStack[len(curStack)-1]
				}
			}
		}
		if curStack != nil {
			stacks = append(stacks, curStack)
		}
		var fs []string
		for _, st := range stacks {
			fn := ""
			for _, fr := range st {
				if strings.Contains(fr, "Comcast/sheens/") && !strings.HasPrefix(fr, "harness:") {
					fn = fr
					break
				}
			}
			if fn != "" {
				if i := strings.LastIndex(fn, "("); i > 0 {
					fn = fn[:i]
				}
				fs = append(fs, shortFunc(fn))
			}
		}
		sig := ""
		if len(fs) >= 2 {
			fs = fs[:2]
			sort.Strings(fs)
			sig = fs[0] + "|" + fs[1]
		} else if len(fs) == 1 {
			sig = fs[0] + "|?"
		}
		if len(blk) > 6000 {
			blk = blk[:6000]
		}
		out = append(out, raceReport{sig: sig, text: strings.TrimSpace(blk)})
	}
	return out
}
