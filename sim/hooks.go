package sim

import (
	"fmt"
	"runtime"
	"sort"
	"sync/atomic"
)

// cur is the run whose tape and scheduler the hooks consult.  It is written
// by the root goroutine before any task of the run exists and cleared after
// every goroutine of the run has exited.
var cur *Ctx

//go:norace
func current() *Ctx { return cur }

// Keys returns the keys of m in a canonical order (type, then value) permuted
// by tape draws (Fisher-Yates; all-zero draws = canonical order).  It replaces
// the runtime's random map iteration in the instrumented sources, which makes
// runs replayable and makes "every order the runtime may choose" a searchable
// dimension.  With no simulator installed it returns the keys in the runtime's
// order.
func Keys[M ~map[K]V, K comparable, V any](m M, site string) []K {
	n := len(m)
	keys := make([]K, 0, n)
	for k := range m {
		keys = append(keys, k)
	}
	c := current()
	if c == nil || n <= 1 {
		return keys
	}
	sortKeys(keys)
	if permuteEnabled(c, site) {
		for i := 0; i < n-1; i++ {
			j := i + orderDraw(c, n-i, site)
			keys[i], keys[j] = keys[j], keys[i]
		}
	}
	return keys
}

// ZeroKV declares the loop variables of a rewritten map range in front of the loop (one pair
// for all iterations, as the language of go.mod has it).
func ZeroKV[M ~map[K]V, K comparable, V any](m M) (k K, v V) { return }

//go:norace
func permuteEnabled(c *Ctx, site string) bool {
	if c.PermuteOff {
		return false
	}
	if c.PermuteOnly != "" {
		return hasPrefix(site, c.PermuteOnly)
	}
	return true
}

//go:norace
func hasPrefix(s, p string) bool { return len(s) >= len(p) && s[:len(p)] == p }

func sortKeys[K comparable](keys []K) {
	switch ks := any(keys).(type) {
	case []string:
		sort.Strings(ks)
	case []int:
		sort.Ints(ks)
	default:
		sort.Slice(keys, func(i, j int) bool {
			return keyString(any(keys[i])) < keyString(any(keys[j]))
		})
	}
}

func keyString(x any) string {
	switch v := x.(type) {
	case nil:
		return "0nil"
	case bool:
		if v {
			return "1bool:true"
		}
		return "1bool:false"
	case float64:
		return fmt.Sprintf("2num:%030.9f", v)
	case string:
		return "3str:" + v
	default:
		return fmt.Sprintf("4%T:%v", x, x)
	}
}

// ---- goroutine -> task table -------------------------------------------

const tableSize = 1 << 13

type slot struct {
	id atomic.Int64
	t  atomic.Pointer[Task]
}

//go:norace
func goid() int64 {
	var buf [64]byte
	n := runtime.Stack(buf[:], false)
	// "goroutine 123 [running]:"
	var id int64
	for i := len("goroutine "); i < n; i++ {
		ch := buf[i]
		if ch < '0' || ch > '9' {
			break
		}
		id = id*10 + int64(ch-'0')
	}
	return id
}

// The goroutine table and the pass-through flag are process-wide and only ever
// accessed atomically: a goroutine left over from an earlier phase or run that
// reaches a hook finds no entry for itself and passes through, without touching
// memory owned by the current run.
var (
	gTable [tableSize]slot
	gFree  atomic.Bool
)

func init() { gFree.Store(true) }

//go:norace
func lookup(id int64) *Task {
	raceDisable()
	h := int(uint64(id)*0x9E3779B97F4A7C15>>40) & (tableSize - 1)
	var t *Task
	for i := 0; i < tableSize; i++ {
		sl := &gTable[(h+i)&(tableSize-1)]
		v := sl.id.Load()
		if v == id {
			t = sl.t.Load()
			break
		}
		if v == 0 {
			break
		}
	}
	raceEnable()
	return t
}

//go:norace
func register(id int64, t *Task) {
	raceDisable()
	h := int(uint64(id)*0x9E3779B97F4A7C15>>40) & (tableSize - 1)
	for i := 0; i < tableSize; i++ {
		sl := &gTable[(h+i)&(tableSize-1)]
		if sl.id.CompareAndSwap(0, id) {
			sl.t.Store(t)
			break
		}
	}
	raceEnable()
}

// ---- hooks called from instrumented code --------------------------------

// Park kinds.
const (
	kYield = iota
	kBlocked
	kBorn
	kDone
)

//go:norace
func curTask() (*Sched, *Task) {
	if gFree.Load() {
		return nil, nil
	}
	t := lookup(goid())
	if t == nil {
		return nil, nil
	}
	return t.sched, t
}

func clearTable() {
	for i := range gTable {
		gTable[i].id.Store(0)
		gTable[i].t.Store(nil)
	}
}

// Yield is a scheduling point: the calling task parks and the scheduler picks
// who runs next.  A goroutine that is not a task of the current run (or no
// run, or teardown) passes straight through.
//
//go:norace
func Yield(site string) {
	s, t := curTask()
	if t == nil {
		return
	}
	if s.masked(site) {
		return
	}
	s.park(t, site, kYield)
}

//go:norace
func (s *Sched) masked(site string) bool {
	m := s.YieldMask
	if m == 0 || (len(site) > 1 && site[0] == 'h' && site[1] == '#') {
		return false // harness yields are never masked
	}
	// class = first letter after '#'
	for i := len(site) - 1; i >= 0; i-- {
		if site[i] == '#' {
			if i+1 < len(site) {
				switch site[i+1] {
				case 'e': // entry
					return m&MaskEntry != 0
				case 'c', 's': // chan, select: never masked - after a rendezvous both
					// parties are awake and must park before touching anything
					return false
				case 'u': // after unlock
					return m&MaskUnlock != 0
				case 'g': // go
					return m&MaskGo != 0
				}
			}
			return false
		}
	}
	return false
}

// Yield classes that a run's swarm configuration may mask.
const (
	MaskEntry  = 1 << iota // function-entry yields
	MaskChan               // yields around channel operations and select
	MaskUnlock             // yields after unlock
	MaskGo                 // yields after go statements
)

// TryLocker is what Gate needs of a sync.Mutex / sync.RWMutex (write side).
type TryLocker interface {
	TryLock() bool
	Unlock()
}

// TryRLocker is the read side of a sync.RWMutex.
type TryRLocker interface {
	TryRLock() bool
	RUnlock()
}

// Gate is inserted before x.Lock(): it is a scheduling point, and it keeps a
// task from blocking in the runtime on a mutex held by a parked task (which
// synctest would not treat as durable blocking).  When Gate returns the lock
// is free and no other task runs before the caller's Lock.
//
//go:norace
func Gate(l TryLocker, site string) {
	s, t := curTask()
	if t == nil {
		return
	}
	s.park(t, site, kYield)
	for !l.TryLock() {
		if gFree.Load() {
			return
		}
		s.park(t, site, kBlocked)
	}
	l.Unlock()
}

// GateR is Gate for RLock.
//
//go:norace
func GateR(l TryRLocker, site string) {
	s, t := curTask()
	if t == nil {
		return
	}
	s.park(t, site, kYield)
	for !l.TryRLock() {
		if gFree.Load() {
			return
		}
		s.park(t, site, kBlocked)
	}
	l.RUnlock()
}

// Tok carries a logical task identity from a go statement (or AfterFunc) to
// the goroutine it starts.
type Tok struct {
	s *Sched
	t *Task
}

// Spawn is called by the parent immediately before a go statement.
//
//go:norace
func Spawn(site string) *Tok {
	s, t := curTask()
	if t == nil {
		return nil
	}
	t.nspawn++
	child := &Task{Name: t.Name + "." + itoa(t.nspawn), Origin: site, resume: make(chan int), sched: s}
	return &Tok{s: s, t: child}
}

// Born is the first statement of a goroutine started from instrumented code.
//
//go:norace
func Born(tok *Tok) {
	if tok == nil {
		return
	}
	if gFree.Load() {
		return
	}
	register(goid(), tok.t)
	tok.s.park(tok.t, "born", kBorn)
}

// Done is deferred in every goroutine started from instrumented code: the
// scheduler learns that the logical task has ended (used to tell goroutines
// that outlive a call from ones that have finished).
//
//go:norace
func Done(tok *Tok) {
	if tok == nil || gFree.Load() {
		return
	}
	tok.s.finish(tok.t)
}

// Wrap gives the function literal handed to time.AfterFunc a task identity.
func Wrap(site string, f func()) func() {
	tok := Spawn(site)
	return func() {
		Born(tok)
		defer Done(tok)
		f()
	}
}

// FaultFn, when set by a harness (root context, before tasks start), decides
// whether the named fault point fails.
var FaultFn func(site string) error

// Fault is an optional cooperative fault point.
func Fault(site string) error {
	if f := FaultFn; f != nil {
		return f(site)
	}
	return nil
}

// SelectOrder is the order in which an instrumented select polls its cases
// before blocking: a tape-chosen permutation (identity without a simulator),
// which replaces the runtime's random choice among ready cases.
func SelectOrder(n int, site string) []int {
	order := make([]int, n)
	for i := range order {
		order[i] = i
	}
	c := current()
	if c == nil {
		return order
	}
	for i := 0; i < n-1; i++ {
		j := i + orderDraw(c, n-i, site)
		order[i], order[j] = order[j], order[i]
	}
	return order
}

// ZeroOf returns the zero value of a channel's element type.
func ZeroOf[T any](ch chan T) (z T) { return z }

// ZeroOfR is ZeroOf for receive-only channels.
func ZeroOfR[T any](ch <-chan T) (z T) { return z }

//go:norace
func orderDraw(c *Ctx, n int, site string) int {
	if f := c.DrawFn; f != nil {
		return f(n, site)
	}
	return c.Tape.Draw(n, site)
}

// RecvOrDone is a two-case select for harness code (which the rewriter does not
// instrument): receive from ch unless done is closed.  When both are ready the
// tape decides, as it does for the instrumented selects of the code under test.
func RecvOrDone[T any](site string, done <-chan struct{}, ch <-chan T) (v T, ok bool) {
	for _, i := range SelectOrder(2, site) {
		if i == 0 {
			select {
			case <-done:
				return v, false
			default:
			}
		} else {
			select {
			case v = <-ch:
				return v, true
			default:
			}
		}
	}
	select {
	case <-done:
		return v, false
	case v = <-ch:
		return v, true
	}
}

// SendOrDone is the sending counterpart of RecvOrDone; false if done won.
func SendOrDone[T any](site string, done <-chan struct{}, ch chan<- T, v T) bool {
	for _, i := range SelectOrder(2, site) {
		if i == 0 {
			select {
			case <-done:
				return false
			default:
			}
		} else {
			select {
			case ch <- v:
				return true
			default:
			}
		}
	}
	select {
	case <-done:
		return false
	case ch <- v:
		return true
	}
}
