package sim

import (
	"fmt"
	"sort"
	"time"
)

// Violation is one oracle failure.  Sig is the stable signature used for
// minimisation and for known_findings.json (function names, fault kinds,
// rule names - never line numbers, seeds or generated values).
type Violation struct {
	Prop   string `json:"property"`
	Sig    string `json:"signature"`
	Detail string `json:"detail"`
}

// Ctx is the state of one simulated run.  Except for Tape (norace) its fields
// are owned by the root goroutine of the run.
type Ctx struct {
	Prop string
	Seed uint64
	Tier string
	Tape *Tape

	// PermuteOff disables map-order permutation (canonical order);
	// PermuteOnly restricts it to sites with the given prefix.
	PermuteOff  bool
	PermuteOnly string

	Sched *Sched

	// DrawFn, when set, replaces the tape for map-order and select-order
	// draws (used to enumerate iteration orders exhaustively).
	DrawFn func(n int, label string) int

	TraceOn bool
	Lines   []string

	Viol    []Violation
	Stats   map[string]int
	Path    string // fault-path / interleaving fingerprint of this run, for distinct counting
	Trivial bool   // run exercised nothing interesting (by the property's stated rule)
	SimTime time.Duration
	Sample  interface{}
	Infra   string // harness trouble: reported as exit 2 by the driver, never as a violation
	Params  map[string]string

	hash uint64
}

// MixHash folds an observation into the run's event hash (root context).  The
// determinism self-test compares these hashes across processes.
func (c *Ctx) MixHash(x string) {
	if c.hash == 0 {
		c.hash = 1469598103934665603
	}
	for i := 0; i < len(x); i++ {
		c.hash ^= uint64(x[i])
		c.hash *= 1099511628211
	}
	c.hash ^= 0xff
	c.hash *= 1099511628211
}

// Violate records a violation of the run's property.
func (c *Ctx) Violate(sig, format string, args ...interface{}) {
	c.Viol = append(c.Viol, Violation{Prop: c.Prop, Sig: sig, Detail: fmt.Sprintf(format, args...)})
}

// Count increments a named reach counter (root context only).
func (c *Ctx) Count(name string) { c.Stats[name]++ }

// Add adds n to a named counter (root context only).
func (c *Ctx) Add(name string, n int) { c.Stats[name] += n }

// Logf appends to the human-readable trace when tracing is on (root context).
func (c *Ctx) Logf(format string, args ...interface{}) {
	if c.TraceOn {
		c.Lines = append(c.Lines, fmt.Sprintf(format, args...))
	}
}

// Draw helpers (root context or task context: Tape is norace).
func (c *Ctx) Intn(n int, label string) int { return c.Tape.Draw(n, label) }
func (c *Ctx) Bool(label string) bool       { return c.Tape.Draw(2, label) == 1 }

// Chance is true with probability num/den.  0 on the tape means "no".
func (c *Ctx) Chance(num, den int, label string) bool {
	return c.Tape.Draw(den, label) >= den-num
}

// SortedStats renders counters deterministically.
func SortedStats(m map[string]int) []string {
	ks := make([]string, 0, len(m))
	for k := range m {
		ks = append(ks, k)
	}
	sort.Strings(ks)
	out := make([]string, 0, len(ks))
	for _, k := range ks {
		out = append(out, fmt.Sprintf("%s=%d", k, m[k]))
	}
	return out
}
