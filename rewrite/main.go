// simrewrite generates the simulator seams for the sheens sources: it reads
// the live files under -repo, splices hook calls into copies under -out
// (byte-for-byte identical elsewhere, same line numbers) and writes
// -out/rewrite.json, from which verifctl builds the -overlay for go test.
// /repo is never written.
//
// Edits (see DESIGN.md Appendix C):
//
//	for k, v := range m {      -> for _, k := range sim.Keys(m, "site") { v, simok := m[k]; if !simok { continue };
//	x.Lock()                   -> sim.Gate(x, "site"); x.Lock()
//	x.Unlock()       (stmt)    -> x.Unlock(); sim.Yield("site")
//	go f(a, b)                 -> { simf, sima0, sima1 := f, a, b; simtok := sim.Spawn("site"); go func() { sim.Born(simtok); simf(sima0, sima1) }() }; sim.Yield("site")
//	go func(..){ B }(..)       -> { simtok := sim.Spawn("site"); go func(..){ sim.Born(simtok); B }(..) }; sim.Yield("site")
//	c <- v | <-c | close(c)    -> sim.Yield("site"); <stmt>; sim.Yield("site")
//	select { case ..: B }      -> sim.Yield("site"); select { case ..: sim.Yield("site"); B }
//	func F(..) { B }  (listed) -> func F(..) { sim.Yield("F#entry"); B }
//	time.AfterFunc(d, f)       -> time.AfterFunc(d, sim.Wrap("site", f))
//	exec.Command(  (expect.go) -> simexec.Command(
//	atomic.StoreX/SwapX/CompareAndSwapX/AddX(..) (stmt) -> <stmt>; sim.Yield("site")
//
// Exit status 2 = cannot instrument (never a violation).
package main

import (
	"encoding/json"
	"flag"
	"fmt"
	"go/ast"
	"go/token"
	"go/types"
	"os"
	"path/filepath"
	"sort"
	"strings"

	"golang.org/x/tools/go/packages"
)

const modPath = "github.com/Comcast/sheens/"

// entry functions that get a function-entry yield, per package dir.
var entries = map[string][]string{
	"core":                    {"Step", "Walk", "consider", "try", "Exec", "SetSpec", "AddEmitted"},
	"interpreters/ecmascript": {"Exec", "RunProgram"},
	"sio":                     {"ProcessMsg", "RunMachine", "GetChanged", "SetMachine", "DeleteMachine", "Add", "add", "cancel", "Cancel", "run", "changed"},
	"cmd/mcrew":               {"Process", "AddMachine", "RemMachine", "Route", "GetSpec", "WriteState", "GetCrew", "Add", "Rem", "toTimers"},
	"crew":                    {"Copy"},
	"tools/expect":            {"Run"},
}

// files instrumented per package dir ("*" = every non-test file).
var files = map[string][]string{
	"match":                   {"*"},
	"core":                    {"*"},
	"crew":                    {"*"},
	"sio":                     {"crew.go", "timers.go", "timersspec.go", "captainspec.go", "timers_glue.go"},
	"cmd/mcrew":               {"service.go", "timers.go", "timers_glue.go", "storage.go", "http_glue.go"},
	"interpreters/ecmascript": {"ecmascript.go"},
	"tools/expect":            {"expect.go"},
}

type edit struct {
	off, end int // [off,end) replaced by text; off==end is an insertion
	seq      int
	text     string
}

type fileRW struct {
	fset     *token.FileSet
	info     *types.Info
	src      []byte
	tf       *token.File
	pkgDir   string
	edits    []edit
	fn       string // current function name for sites
	counts   map[string]int
	usesSim  bool
	usesExe  bool
	usesPool bool
	sites    map[string]int
	notes    []string
}

func (r *fileRW) off(p token.Pos) int { return r.tf.Offset(p) }

func (r *fileRW) text(n ast.Node) string { return string(r.src[r.off(n.Pos()):r.off(n.End())]) }

func (r *fileRW) insert(p token.Pos, s string) {
	r.edits = append(r.edits, edit{r.off(p), r.off(p), len(r.edits), s})
}

func (r *fileRW) replace(from, to token.Pos, s string) {
	r.edits = append(r.edits, edit{r.off(from), r.off(to), len(r.edits), s})
}

func (r *fileRW) site(kind string) string {
	key := r.fn + "#" + kind
	r.counts[key]++
	r.sites[kind]++
	r.usesSim = true
	return fmt.Sprintf("%s.%s#%s%d", filepath.Base(r.pkgDir), r.fn, kind, r.counts[key])
}

func fatal(format string, args ...interface{}) {
	fmt.Fprintf(os.Stderr, "simrewrite: "+format+"\n", args...)
	os.Exit(2)
}

func main() {
	repo := flag.String("repo", "/repo", "sheens working tree")
	out := flag.String("out", "/verif/build/gen", "output directory")
	flag.Parse()

	var patterns []string
	var dirs []string
	for d := range files {
		dirs = append(dirs, d)
	}
	sort.Strings(dirs)
	for _, d := range dirs {
		patterns = append(patterns, "./"+d)
	}
	cfg := &packages.Config{
		Mode: packages.NeedName | packages.NeedFiles | packages.NeedCompiledGoFiles | packages.NeedSyntax |
			packages.NeedTypes | packages.NeedTypesInfo | packages.NeedImports,
		Dir: *repo,
		Env: append(os.Environ(), "GOFLAGS=-mod=mod", "GOPROXY=off", "GOSUMDB=off", "GOTOOLCHAIN=local"),
	}
	pkgs, err := packages.Load(cfg, patterns...)
	if err != nil {
		fatal("load: %v", err)
	}
	bad := false
	for _, p := range pkgs {
		for _, e := range p.Errors {
			fmt.Fprintf(os.Stderr, "simrewrite: %s: %v\n", p.PkgPath, e)
			bad = true
		}
	}
	if bad {
		fatal("packages do not type-check")
	}

	type outRec struct {
		Orig  string         `json:"orig"`
		Gen   string         `json:"gen"`
		Sites map[string]int `json:"sites"`
		Notes []string       `json:"notes,omitempty"`
	}
	var recs []outRec
	total := map[string]int{}
	for _, p := range pkgs {
		dir := strings.TrimPrefix(p.PkgPath, modPath)
		want := files[dir]
		if want == nil {
			continue
		}
		for i, f := range p.Syntax {
			path := p.CompiledGoFiles[i]
			base := filepath.Base(path)
			if strings.HasSuffix(base, "_test.go") {
				continue
			}
			ok := false
			for _, w := range want {
				if w == "*" || w == base {
					ok = true
				}
			}
			if !ok {
				continue
			}
			src, err := os.ReadFile(path)
			if err != nil {
				fatal("%v", err)
			}
			r := &fileRW{fset: p.Fset, info: p.TypesInfo, src: src, tf: p.Fset.File(f.Pos()), pkgDir: dir,
				counts: map[string]int{}, sites: map[string]int{}}
			r.file(f)
			if len(r.edits) == 0 {
				continue
			}
			gen := filepath.Join(*out, dir, base)
			if err := os.MkdirAll(filepath.Dir(gen), 0o755); err != nil {
				fatal("%v", err)
			}
			if err := os.WriteFile(gen, r.apply(f), 0o644); err != nil {
				fatal("%v", err)
			}
			recs = append(recs, outRec{Orig: path, Gen: gen, Sites: r.sites, Notes: r.notes})
			for k, v := range r.sites {
				total[k] += v
			}
		}
	}
	// anchors that must exist
	if total["exec"] == 0 {
		fatal("cannot instrument: exec.Command not found in tools/expect/expect.go")
	}
	sort.Slice(recs, func(i, j int) bool { return recs[i].Orig < recs[j].Orig })
	js, _ := json.MarshalIndent(map[string]interface{}{"files": recs, "sites": total}, "", " ")
	if err := os.WriteFile(filepath.Join(*out, "rewrite.json"), js, 0o644); err != nil {
		fatal("%v", err)
	}
}

func (r *fileRW) apply(f *ast.File) []byte {
	imp := ""
	if r.usesSim {
		imp += `; import sim "verif/sim"`
	}
	if r.usesExe {
		imp += `; import simexec "verif/sim/simexec"`
		r.edits = append(r.edits, edit{len(r.src), len(r.src), len(r.edits), "\nvar _ = exec.ErrNotFound\n"})
	}
	if r.usesPool {
		r.edits = append(r.edits, edit{len(r.src), len(r.src), len(r.edits), "\nvar _ sync.Mutex\n"})
	}
	if imp != "" {
		r.insert(f.Name.End(), imp)
	}
	sort.SliceStable(r.edits, func(i, j int) bool {
		if r.edits[i].off != r.edits[j].off {
			return r.edits[i].off < r.edits[j].off
		}
		return r.edits[i].seq < r.edits[j].seq
	})
	var out []byte
	pos := 0
	for _, e := range r.edits {
		if e.off < pos {
			// swallowed by an enclosing replacement
			continue
		}
		out = append(out, r.src[pos:e.off]...)
		out = append(out, e.text...)
		pos = e.end
	}
	out = append(out, r.src[pos:]...)
	return out
}

func (r *fileRW) file(f *ast.File) {
	for _, d := range f.Decls {
		fd, ok := d.(*ast.FuncDecl)
		if !ok {
			// package-level var initialisers may contain function literals
			r.expr(d)
			continue
		}
		if fd.Body == nil {
			continue
		}
		name := fd.Name.Name
		if fd.Recv != nil && len(fd.Recv.List) == 1 {
			t := fd.Recv.List[0].Type
			if st, ok := t.(*ast.StarExpr); ok {
				t = st.X
			}
			if id, ok := t.(*ast.Ident); ok {
				name = id.Name + "." + name
			}
		}
		r.fn = name
		for _, e := range entries[r.pkgDir] {
			if e == fd.Name.Name {
				r.insert(fd.Body.Lbrace+1, fmt.Sprintf(" sim.Yield(%q);", r.site("entry")))
			}
		}
		r.block(fd.Body)
	}
}

func (r *fileRW) block(b *ast.BlockStmt) {
	if b == nil {
		return
	}
	for _, s := range b.List {
		r.stmt(s, s.Pos())
	}
}

// stmt instruments s; at is where "before" insertions go (the label's position
// for a labelled statement).
func (r *fileRW) stmt(s ast.Stmt, at token.Pos) {
	switch s := s.(type) {
	case *ast.BlockStmt:
		r.block(s)
	case *ast.LabeledStmt:
		r.stmt(s.Stmt, at)
	case *ast.IfStmt:
		if s.Init != nil {
			r.expr(s.Init)
		}
		r.expr(s.Cond)
		r.block(s.Body)
		if s.Else != nil {
			r.stmt(s.Else, s.Else.Pos())
		}
	case *ast.ForStmt:
		if s.Init != nil {
			r.expr(s.Init)
		}
		if s.Cond != nil {
			r.expr(s.Cond)
		}
		if s.Post != nil {
			r.expr(s.Post)
		}
		r.block(s.Body)
	case *ast.RangeStmt:
		r.expr(s.X)
		r.rangeStmt(s)
		r.block(s.Body)
	case *ast.SwitchStmt:
		if s.Init != nil {
			r.expr(s.Init)
		}
		if s.Tag != nil {
			r.expr(s.Tag)
		}
		for _, c := range s.Body.List {
			cc := c.(*ast.CaseClause)
			for _, e := range cc.List {
				r.expr(e)
			}
			for _, st := range cc.Body {
				r.stmt(st, st.Pos())
			}
		}
	case *ast.TypeSwitchStmt:
		if s.Init != nil {
			r.expr(s.Init)
		}
		r.expr(s.Assign)
		for _, c := range s.Body.List {
			cc := c.(*ast.CaseClause)
			for _, st := range cc.Body {
				r.stmt(st, st.Pos())
			}
		}
	case *ast.SelectStmt:
		site := r.site("select")
		r.insert(at, fmt.Sprintf("sim.Yield(%q); ", site))
		if at != s.Pos() {
			fatal("cannot instrument: labelled select at %s", r.fset.Position(s.Pos()))
		}
		r.selectStmt(s, site)
		for i, c := range s.Body.List {
			cc := c.(*ast.CommClause)
			r.insert(cc.Colon+1, fmt.Sprintf(" sim.Yield(%q);", fmt.Sprintf("%s.case%d", site, i)))
			for _, st := range cc.Body {
				r.stmt(st, st.Pos())
			}
		}
	case *ast.GoStmt:
		r.goStmt(s, at)
	case *ast.SendStmt:
		r.expr(s)
		site := r.site("chan")
		r.insert(at, fmt.Sprintf("sim.Yield(%q); ", site))
		r.insert(s.End(), fmt.Sprintf("; sim.Yield(%q)", site+"'"))
	case *ast.ExprStmt:
		r.expr(s)
		if call, ok := s.X.(*ast.CallExpr); ok {
			if r.lockCall(call, at, s.End()) {
				return
			}
			if r.atomicWrite(call) {
				// an atomic store publishes something: others may run before the next statement
				r.insert(s.End(), fmt.Sprintf("; sim.Yield(%q)", r.site("atomic")))
			}
			if id, ok := call.Fun.(*ast.Ident); ok && id.Name == "close" && len(call.Args) == 1 {
				if _, isBuiltin := r.info.Uses[id].(*types.Builtin); isBuiltin {
					site := r.site("chan")
					r.insert(at, fmt.Sprintf("sim.Yield(%q); ", site))
					r.insert(s.End(), fmt.Sprintf("; sim.Yield(%q)", site+"'"))
				}
			}
		}
		if call, ok := s.X.(*ast.CallExpr); ok {
			if sel, ok := call.Fun.(*ast.SelectorExpr); ok && sel.Sel.Name == "Sleep" {
				if id, ok := sel.X.(*ast.Ident); ok {
					if pn, ok := r.info.Uses[id].(*types.PkgName); ok && pn.Imported().Path() == "time" {
						// goroutines whose sleeps end at the same instant wake together
						r.insert(s.End(), fmt.Sprintf("; sim.Yield(%q)", r.site("chan")+"'"))
					}
				}
			}
		}
		if u, ok := s.X.(*ast.UnaryExpr); ok && u.Op == token.ARROW {
			site := r.site("chan")
			r.insert(at, fmt.Sprintf("sim.Yield(%q); ", site))
			r.insert(s.End(), fmt.Sprintf("; sim.Yield(%q)", site+"'"))
		}
	case *ast.AssignStmt:
		r.expr(s)
		if len(s.Rhs) == 1 {
			if call, ok := s.Rhs[0].(*ast.CallExpr); ok && r.atomicWrite(call) {
				r.insert(s.End(), fmt.Sprintf("; sim.Yield(%q)", r.site("atomic")))
			}
			if u, ok := s.Rhs[0].(*ast.UnaryExpr); ok && u.Op == token.ARROW {
				site := r.site("chan")
				r.insert(at, fmt.Sprintf("sim.Yield(%q); ", site))
				r.insert(s.End(), fmt.Sprintf("; sim.Yield(%q)", site+"'"))
			}
		}
	default:
		// return, defer, decl, incdec, branch, empty
		r.expr(s)
	}
}

// expr visits an expression (or simple statement) for function literals,
// time.AfterFunc and exec.Command.
func (r *fileRW) expr(n ast.Node) {
	if n == nil {
		return
	}
	ast.Inspect(n, func(n ast.Node) bool {
		switch x := n.(type) {
		case *ast.FuncLit:
			r.block(x.Body)
			return false
		case *ast.SelectorExpr:
			if id, ok := x.X.(*ast.Ident); ok && x.Sel.Name == "Pool" {
				if pn, ok := r.info.Uses[id].(*types.PkgName); ok && pn.Imported().Path() == "sync" {
					// (not used by the shipped code) which pooled object a Get returns is a tape decision
					r.replace(x.Pos(), x.End(), "sim.Pool")
					r.usesSim = true
					r.usesPool = true
					r.sites["pool"]++
				}
			}
		case *ast.CallExpr:
			if sel, ok := x.Fun.(*ast.SelectorExpr); ok {
				if id, ok := sel.X.(*ast.Ident); ok {
					if pn, ok := r.info.Uses[id].(*types.PkgName); ok {
						switch {
						case pn.Imported().Path() == "time" && sel.Sel.Name == "AfterFunc" && len(x.Args) == 2:
							r.insert(x.Args[1].Pos(), fmt.Sprintf("sim.Wrap(%q, ", r.site("afterfunc")))
							r.insert(x.Args[1].End(), ")")
						case pn.Imported().Path() == "context" && sel.Sel.Name == "AfterFunc" && len(x.Args) == 2:
							// (not used by the shipped code; the goroutine a context starts for the
							// hook becomes a scheduled task like any other)
							r.insert(x.Args[1].Pos(), fmt.Sprintf("sim.Wrap(%q, ", r.site("afterfunc")))
							r.insert(x.Args[1].End(), ")")
						case pn.Imported().Path() == "os/exec" && sel.Sel.Name == "Command" && r.pkgDir == "tools/expect":
							r.replace(sel.Pos(), sel.End(), "simexec.Command")
							r.usesExe = true
							r.sites["exec"]++
						}
					}
				}
			}
		}
		return true
	})
}

// selectStmt makes the choice among several ready cases a tape decision
// instead of the runtime's random one: the cases are polled without blocking
// in a tape-chosen order; only if none is ready does the goroutine block in
// the original select (where the first waker decides).
//
//	select { case <-a: A; case v := <-b: B; case c <- e: C }
//	=>
//	{ simsel := -1; var simv1 T; sime2 := e
//	  for _, simi := range sim.SelectOrder(3, "site") { switch simi {
//	    case 0: select { case <-a: simsel = 0; default: }
//	    case 1: select { case simv1 = <-b: simsel = 1; default: }
//	    case 2: select { case c <- sime2: simsel = 2; default: } }
//	    if simsel >= 0 { break } }
//	  if simsel < 0 { select { case <-a: simsel = 0; case simv1 = <-b: simsel = 1; case c <- sime2: simsel = 2 } }
//	  switch simsel { case 0: A; case 1: v := simv1; B; case 2: C } }
func (r *fileRW) selectStmt(s *ast.SelectStmt, site string) {
	type cs struct {
		cc    *ast.CommClause
		poll  string // comm text used in polls, with %d-free assignments
		bind  string // text placed at the start of the body
		decl  string
		isDef bool
	}
	var cases []cs
	ncomm := 0
	for i, c := range s.Body.List {
		cc := c.(*ast.CommClause)
		x := cs{cc: cc}
		switch comm := cc.Comm.(type) {
		case nil:
			x.isDef = true
		case *ast.ExprStmt: // <-a
			x.poll = r.text(comm)
			ncomm++
		case *ast.SendStmt: // c <- e
			v := fmt.Sprintf("sime%d", i)
			x.decl = fmt.Sprintf("%s := %s; ", v, r.text(comm.Value))
			x.poll = fmt.Sprintf("%s <- %s", r.text(comm.Chan), v)
			ncomm++
		case *ast.AssignStmt:
			if len(comm.Lhs) != 1 || len(comm.Rhs) != 1 {
				fatal("cannot instrument: two-value receive in select at %s", r.fset.Position(comm.Pos()))
			}
			if comm.Tok == token.DEFINE {
				u, ok := comm.Rhs[0].(*ast.UnaryExpr)
				if !ok {
					fatal("cannot instrument: select case at %s", r.fset.Position(comm.Pos()))
				}
				v := fmt.Sprintf("simv%d", i)
				x.decl = fmt.Sprintf("%s := sim.ZeroOf(%s); ", v, r.text(u.X))
				if ct, ok := r.info.TypeOf(u.X).Underlying().(*types.Chan); ok && ct.Dir() == types.RecvOnly {
					x.decl = fmt.Sprintf("%s := sim.ZeroOfR(%s); ", v, r.text(u.X))
				}
				x.poll = fmt.Sprintf("%s = %s", v, r.text(comm.Rhs[0]))
				x.bind = fmt.Sprintf(" %s := %s;", r.text(comm.Lhs[0]), v)
			} else {
				x.poll = r.text(comm)
			}
			ncomm++
		default:
			fatal("cannot instrument: select case at %s", r.fset.Position(cc.Pos()))
		}
		cases = append(cases, x)
	}
	if ncomm <= 1 {
		return // at most one communication: nothing for the runtime to choose
	}
	var pre, polls, block strings.Builder
	hasDef := -1
	k := 0
	pre.WriteString("{ simsel := -1; ")
	for i, x := range cases {
		if x.isDef {
			hasDef = i
			continue
		}
		pre.WriteString(x.decl)
		fmt.Fprintf(&polls, "case %d: select { case %s: simsel = %d; default: }; ", k, x.poll, i)
		fmt.Fprintf(&block, "case %s: simsel = %d; ", x.poll, i)
		k++
	}
	fmt.Fprintf(&pre, "for _, simi := range sim.SelectOrder(%d, %q) { switch simi { %s}; if simsel >= 0 { break } }; ", ncomm, site, polls.String())
	if hasDef >= 0 {
		fmt.Fprintf(&pre, "if simsel < 0 { simsel = %d }; ", hasDef)
	} else {
		fmt.Fprintf(&pre, "if simsel < 0 { select { %s} }; ", block.String())
	}
	pre.WriteString("switch simsel {")
	r.replace(s.Select, s.Body.Lbrace+1, pre.String())
	for i, x := range cases {
		r.replace(x.cc.Pos(), x.cc.Colon+1, fmt.Sprintf("case %d:%s", i, x.bind))
	}
	// (a default that cannot be reached keeps a select that ended its function a terminating statement)
	r.insert(s.Body.Rbrace, "default: panic(\"sim: no select case chosen\"); ")
	r.insert(s.Body.Rbrace+1, " }")
	r.sites["select-choice"]++
}

func (r *fileRW) hasMethod(t types.Type, name string) bool {
	obj, _, _ := types.LookupFieldOrMethod(t, true, nil, name)
	_, ok := obj.(*types.Func)
	return ok
}

func (r *fileRW) lockCall(call *ast.CallExpr, at, end token.Pos) bool {
	sel, ok := call.Fun.(*ast.SelectorExpr)
	if !ok || len(call.Args) != 0 {
		return false
	}
	t := r.info.TypeOf(sel.X)
	if t == nil {
		return false
	}
	arg := r.text(sel.X)
	if _, isPtr := t.Underlying().(*types.Pointer); !isPtr {
		arg = "&" + arg
	}
	switch sel.Sel.Name {
	case "Lock":
		if !r.hasMethod(t, "TryLock") {
			return false
		}
		r.insert(at, fmt.Sprintf("sim.Gate(%s, %q); ", arg, r.site("lock")))
		return true
	case "RLock":
		if !r.hasMethod(t, "TryRLock") {
			return false
		}
		r.insert(at, fmt.Sprintf("sim.GateR(%s, %q); ", arg, r.site("rlock")))
		return true
	case "Unlock", "RUnlock":
		if !r.hasMethod(t, "TryLock") {
			return false
		}
		r.insert(end, fmt.Sprintf("; sim.Yield(%q)", r.site("unlock")))
		return true
	}
	return false
}

// atomicWrite: a call of a sync/atomic function that stores (Store*, Swap*,
// CompareAndSwap*, Add*), or of such a method of an atomic.Value / atomic.Pointer.
func (r *fileRW) atomicWrite(call *ast.CallExpr) bool {
	sel, ok := call.Fun.(*ast.SelectorExpr)
	if !ok {
		return false
	}
	name := sel.Sel.Name
	if !(strings.HasPrefix(name, "Store") || strings.HasPrefix(name, "Swap") || strings.HasPrefix(name, "CompareAndSwap") || strings.HasPrefix(name, "Add")) {
		return false
	}
	if id, ok := sel.X.(*ast.Ident); ok {
		if pn, ok := r.info.Uses[id].(*types.PkgName); ok {
			return pn.Imported().Path() == "sync/atomic"
		}
	}
	if t := r.info.TypeOf(sel.X); t != nil {
		return strings.Contains(t.String(), "sync/atomic.")
	}
	return false
}

func (r *fileRW) goStmt(s *ast.GoStmt, at token.Pos) {
	site := r.site("go")
	call := s.Call
	if fl, ok := call.Fun.(*ast.FuncLit); ok {
		for _, a := range call.Args {
			r.expr(a)
		}
		r.insert(at, fmt.Sprintf("{ simtok := sim.Spawn(%q); ", site))
		r.insert(fl.Body.Lbrace+1, " sim.Born(simtok); defer sim.Done(simtok);")
		r.block(fl.Body)
		r.insert(s.End(), fmt.Sprintf(" }; sim.Yield(%q)", site+"'"))
		return
	}
	// go f(a, b): evaluate f and the arguments now, as the language requires.
	var lhs, rhs, args []string
	builtin := false
	if id, ok := call.Fun.(*ast.Ident); ok {
		if _, ok := r.info.Uses[id].(*types.Builtin); ok {
			builtin = true
		}
	}
	fn := "simf"
	if builtin {
		fn = r.text(call.Fun)
	} else {
		lhs = append(lhs, "simf")
		rhs = append(rhs, r.text(call.Fun))
	}
	for i, a := range call.Args {
		tv := r.info.Types[a]
		if tv.Value != nil || tv.IsNil() || builtin {
			args = append(args, r.text(a))
			continue
		}
		v := fmt.Sprintf("sima%d", i)
		lhs = append(lhs, v)
		rhs = append(rhs, r.text(a))
		args = append(args, v)
	}
	if call.Ellipsis.IsValid() && len(args) > 0 {
		args[len(args)-1] += "..."
	}
	pre := ""
	if len(lhs) > 0 {
		pre = strings.Join(lhs, ", ") + " := " + strings.Join(rhs, ", ") + "; "
	}
	text := fmt.Sprintf("{ %ssimtok := sim.Spawn(%q); go func() { sim.Born(simtok); defer sim.Done(simtok); %s(%s) }() }; sim.Yield(%q)",
		pre, site, fn, strings.Join(args, ", "), site+"'")
	if at != s.Pos() {
		// labelled go statement: keep the label text
		text = string(r.src[r.off(at):r.off(s.Pos())]) + text
	}
	r.replace(at, s.End(), text)
}

func (r *fileRW) rangeStmt(s *ast.RangeStmt) {
	t := r.info.TypeOf(s.X)
	if t == nil {
		return
	}
	if _, ok := t.Underlying().(*types.Map); !ok {
		return
	}
	keyName, valName := "", ""
	if id, ok := s.Key.(*ast.Ident); ok && id.Name != "_" {
		keyName = id.Name
	} else if s.Key != nil {
		if _, ok := s.Key.(*ast.Ident); !ok {
			fatal("cannot instrument: range key is not an identifier at %s", r.fset.Position(s.Pos()))
		}
	}
	if s.Value != nil {
		if id, ok := s.Value.(*ast.Ident); ok {
			if id.Name != "_" {
				valName = id.Name
			}
		} else {
			fatal("cannot instrument: range value is not an identifier at %s", r.fset.Position(s.Pos()))
		}
	}
	if keyName == "" && valName == "" {
		return // order cannot matter to the body through the loop variables
	}
	// the map expression must be cheap and pure to evaluate twice
	switch x := s.X.(type) {
	case *ast.Ident:
	case *ast.SelectorExpr:
		for e := ast.Expr(x); ; {
			if se, ok := e.(*ast.SelectorExpr); ok {
				e = se.X
				continue
			}
			if _, ok := e.(*ast.Ident); !ok {
				fatal("cannot instrument: range over a computed map at %s", r.fset.Position(s.Pos()))
			}
			break
		}
	default:
		fatal("cannot instrument: range over a computed map at %s", r.fset.Position(s.Pos()))
	}
	// The rewritten loop declares its variables per iteration.  Under the go-1.20 semantics
	// of go.mod the original's variables are shared by all iterations, which a closure that
	// captures them can observe: such a loop keeps one pair of variables, declared in front
	// of the loop (only for := loops without a label; anything else is refused).
	var objs []types.Object
	for _, e := range []ast.Expr{s.Key, s.Value} {
		if id, ok := e.(*ast.Ident); ok && id.Name != "_" {
			if o := r.info.Defs[id]; o != nil {
				objs = append(objs, o)
			} else if o := r.info.Uses[id]; o != nil {
				objs = append(objs, o)
			}
		}
	}
	captured := false
	ast.Inspect(s.Body, func(n ast.Node) bool {
		if fl, ok := n.(*ast.FuncLit); ok {
			ast.Inspect(fl, func(m ast.Node) bool {
				if id, ok := m.(*ast.Ident); ok {
					for _, o := range objs {
						if r.info.Uses[id] == o {
							if s.Tok != token.DEFINE {
								fatal("cannot instrument: closure captures range variable %s at %s", id.Name, r.fset.Position(id.Pos()))
							}
							captured = true
						}
					}
				}
				return true
			})
			return false
		}
		return true
	})
	if captured {
		m := r.text(s.X)
		site := r.site("range")
		k, v := keyName, valName
		if k == "" {
			k = "_"
		}
		if v == "" {
			v = "_"
		}
		head := fmt.Sprintf("{ %s, %s := sim.ZeroKV(%s); for _, simk := range sim.Keys(%s, %q) { ", k, v, m, m, site)
		if keyName != "" {
			head += keyName + " = simk; "
		}
		if valName != "" {
			head += fmt.Sprintf("var simok bool; %s, simok = %s[simk]; if !simok { continue };", valName, m)
		} else {
			head += fmt.Sprintf("if _, simok := %s[simk]; !simok { continue };", m)
		}
		r.replace(s.For, s.Body.Lbrace+1, head)
		r.replace(s.Body.Rbrace, s.Body.Rbrace+1, "}}")
		return
	}
	m := r.text(s.X)
	site := r.site("range")
	var head string
	define := s.Tok == token.DEFINE
	switch {
	case define && keyName != "" && valName != "":
		head = fmt.Sprintf("for _, %s := range sim.Keys(%s, %q) { %s, simok := %s[%s]; if !simok { continue };", keyName, m, site, valName, m, keyName)
	case define && keyName != "":
		head = fmt.Sprintf("for _, %s := range sim.Keys(%s, %q) { if _, simok := %s[%s]; !simok { continue };", keyName, m, site, m, keyName)
	case define:
		head = fmt.Sprintf("for _, simk := range sim.Keys(%s, %q) { %s, simok := %s[simk]; if !simok { continue };", m, site, valName, m)
	case keyName != "" && valName != "":
		head = fmt.Sprintf("for _, simk := range sim.Keys(%s, %q) { var simok bool; %s = simk; %s, simok = %s[simk]; if !simok { continue };", m, site, keyName, valName, m)
	case keyName != "":
		head = fmt.Sprintf("for _, simk := range sim.Keys(%s, %q) { %s = simk; if _, simok := %s[simk]; !simok { continue };", m, site, keyName, m)
	default:
		head = fmt.Sprintf("for _, simk := range sim.Keys(%s, %q) { var simok bool; %s, simok = %s[simk]; if !simok { continue };", m, site, valName, m)
	}
	r.replace(s.For, s.Body.Lbrace+1, head)
}
